//! libc symbol interposition (the executable's definitions win over glibc's for the statically
//! linked std): virtual wall clock, virtual sleep for scheduled threads, crash-image recording.
use std::cell::Cell;
use std::sync::atomic::{AtomicBool, AtomicU64, AtomicUsize, Ordering};
use std::sync::RwLock;

fn real(name: &'static [u8], slot: &AtomicUsize) -> usize {
    let p = slot.load(Ordering::Relaxed);
    if p != 0 {
        return p;
    }
    let f = unsafe { libc::dlsym(libc::RTLD_NEXT, name.as_ptr() as *const libc::c_char) } as usize;
    assert!(f != 0);
    slot.store(f, Ordering::Relaxed);
    f
}

// ---------------------------------------------------------------- virtual wall clock
static VCLOCK_ON: AtomicBool = AtomicBool::new(false);
static VCLOCK_NS: AtomicU64 = AtomicU64::new(1_700_000_000_000_000_000);
pub static CLOCK_CALLS: AtomicU64 = AtomicU64::new(0);

/// CLOCK_REALTIME becomes a strictly increasing counter (1 µs per reading): nun-db uses the wall
/// clock only to order operations (op ids), so this keeps runs reproducible and ids unique.
pub fn virtual_clock(on: bool) {
    VCLOCK_ON.store(on, Ordering::SeqCst);
}
pub fn virtual_now_ns() -> u64 {
    VCLOCK_NS.load(Ordering::SeqCst)
}
pub fn advance_clock_ns(ns: u64) {
    VCLOCK_NS.fetch_add(ns, Ordering::SeqCst);
}

static REAL_CLOCK_GETTIME: AtomicUsize = AtomicUsize::new(0);
#[no_mangle]
pub unsafe extern "C" fn clock_gettime(clk: libc::clockid_t, ts: *mut libc::timespec) -> libc::c_int {
    if clk == libc::CLOCK_REALTIME && VCLOCK_ON.load(Ordering::Relaxed) {
        CLOCK_CALLS.fetch_add(1, Ordering::Relaxed);
        let ns = VCLOCK_NS.fetch_add(1000, Ordering::SeqCst) + 1000;
        (*ts).tv_sec = (ns / 1_000_000_000) as libc::time_t;
        (*ts).tv_nsec = (ns % 1_000_000_000) as libc::c_long;
        return 0;
    }
    let f: unsafe extern "C" fn(libc::clockid_t, *mut libc::timespec) -> libc::c_int =
        std::mem::transmute(real(b"clock_gettime\0", &REAL_CLOCK_GETTIME));
    f(clk, ts)
}

// ---------------------------------------------------------------- virtual sleep
/// handler(nanos) -> true when the sleep was taken over (the calling thread is a scheduled task)
pub type SleepFn = fn(u64) -> bool;
static SLEEP_HOOK: RwLock<Option<SleepFn>> = RwLock::new(None);
pub static SLEEP_CALLS: AtomicU64 = AtomicU64::new(0);

pub fn set_sleep_hook(f: Option<SleepFn>) {
    *SLEEP_HOOK.write().unwrap() = f;
}

fn try_virtual_sleep(req: *const libc::timespec) -> bool {
    SLEEP_CALLS.fetch_add(1, Ordering::Relaxed);
    let f = { *SLEEP_HOOK.read().unwrap() };
    if let Some(f) = f {
        let (s, n) = unsafe { ((*req).tv_sec as u64, (*req).tv_nsec as u64) };
        return f(s * 1_000_000_000 + n);
    }
    false
}

static REAL_NANOSLEEP: AtomicUsize = AtomicUsize::new(0);
#[no_mangle]
pub unsafe extern "C" fn nanosleep(req: *const libc::timespec, rem: *mut libc::timespec) -> libc::c_int {
    if try_virtual_sleep(req) {
        return 0;
    }
    let f: unsafe extern "C" fn(*const libc::timespec, *mut libc::timespec) -> libc::c_int =
        std::mem::transmute(real(b"nanosleep\0", &REAL_NANOSLEEP));
    f(req, rem)
}

static REAL_CLOCK_NANOSLEEP: AtomicUsize = AtomicUsize::new(0);
#[no_mangle]
pub unsafe extern "C" fn clock_nanosleep(
    clk: libc::clockid_t,
    flags: libc::c_int,
    req: *const libc::timespec,
    rem: *mut libc::timespec,
) -> libc::c_int {
    if flags == 0 && try_virtual_sleep(req) {
        return 0;
    }
    let f: unsafe extern "C" fn(libc::clockid_t, libc::c_int, *const libc::timespec, *mut libc::timespec) -> libc::c_int =
        std::mem::transmute(real(b"clock_nanosleep\0", &REAL_CLOCK_NANOSLEEP));
    f(clk, flags, req, rem)
}

/// self-test: is the sleep interposition effective in this executable?
pub fn sleep_interposition_works() -> bool {
    fn h(_ns: u64) -> bool {
        true
    }
    let before = SLEEP_CALLS.load(Ordering::SeqCst);
    set_sleep_hook(Some(h));
    let t = std::time::Instant::now();
    std::thread::sleep(std::time::Duration::from_millis(300));
    let el = t.elapsed();
    set_sleep_hook(None);
    SLEEP_CALLS.load(Ordering::SeqCst) > before && el < std::time::Duration::from_millis(100)
}

pub fn clock_interposition_works() -> bool {
    let was = VCLOCK_ON.load(Ordering::SeqCst);
    virtual_clock(true);
    let a = nundb::bo::Databases::next_op_log_id();
    let b = nundb::bo::Databases::next_op_log_id();
    virtual_clock(was);
    b == a + 1000
}

// ---------------------------------------------------------------- file-mutation recording (crash images)
thread_local! {
    static IN_HOOK: Cell<bool> = Cell::new(false);
}
/// handler(op, path, detail): called BEFORE the mutating call is executed
pub type FileFn = fn(&str, &str, &str);
static FILE_HOOK: RwLock<Option<FileFn>> = RwLock::new(None);
static FILE_HOOK_ON: AtomicBool = AtomicBool::new(false);

pub fn set_file_hook(f: Option<FileFn>) {
    FILE_HOOK_ON.store(f.is_some(), Ordering::SeqCst);
    *FILE_HOOK.write().unwrap() = f;
}

fn fd_path(fd: libc::c_int) -> String {
    match std::fs::read_link(format!("/proc/self/fd/{}", fd)) {
        Ok(p) => p.to_string_lossy().to_string(),
        Err(_) => String::new(),
    }
}

fn file_event(op: &str, path: impl FnOnce() -> String, detail: impl FnOnce() -> String) {
    if !FILE_HOOK_ON.load(Ordering::Relaxed) {
        return;
    }
    let reentrant = IN_HOOK.with(|c| c.replace(true));
    if reentrant {
        return;
    }
    let f = { *FILE_HOOK.read().unwrap() };
    if let Some(f) = f {
        let p = path();
        f(op, &p, &detail());
    }
    IN_HOOK.with(|c| c.set(false));
}

unsafe fn cstr(p: *const libc::c_char) -> String {
    if p.is_null() {
        return String::new();
    }
    std::ffi::CStr::from_ptr(p).to_string_lossy().to_string()
}

static REAL_WRITE: AtomicUsize = AtomicUsize::new(0);
#[no_mangle]
pub unsafe extern "C" fn write(fd: libc::c_int, buf: *const libc::c_void, n: libc::size_t) -> libc::ssize_t {
    file_event("write", || fd_path(fd), || format!("{}B", n));
    let f: unsafe extern "C" fn(libc::c_int, *const libc::c_void, libc::size_t) -> libc::ssize_t =
        std::mem::transmute(real(b"write\0", &REAL_WRITE));
    f(fd, buf, n)
}

static REAL_PWRITE64: AtomicUsize = AtomicUsize::new(0);
#[no_mangle]
pub unsafe extern "C" fn pwrite64(fd: libc::c_int, buf: *const libc::c_void, n: libc::size_t, off: libc::off64_t) -> libc::ssize_t {
    file_event("pwrite", || fd_path(fd), || format!("{}B@{}", n, off));
    let f: unsafe extern "C" fn(libc::c_int, *const libc::c_void, libc::size_t, libc::off64_t) -> libc::ssize_t =
        std::mem::transmute(real(b"pwrite64\0", &REAL_PWRITE64));
    f(fd, buf, n, off)
}

static REAL_RENAME: AtomicUsize = AtomicUsize::new(0);
#[no_mangle]
pub unsafe extern "C" fn rename(a: *const libc::c_char, b: *const libc::c_char) -> libc::c_int {
    file_event("rename", || cstr(a), || cstr(b));
    let f: unsafe extern "C" fn(*const libc::c_char, *const libc::c_char) -> libc::c_int =
        std::mem::transmute(real(b"rename\0", &REAL_RENAME));
    f(a, b)
}

static REAL_UNLINK: AtomicUsize = AtomicUsize::new(0);
#[no_mangle]
pub unsafe extern "C" fn unlink(a: *const libc::c_char) -> libc::c_int {
    file_event("unlink", || cstr(a), || String::new());
    let f: unsafe extern "C" fn(*const libc::c_char) -> libc::c_int = std::mem::transmute(real(b"unlink\0", &REAL_UNLINK));
    f(a)
}

static REAL_FTRUNCATE64: AtomicUsize = AtomicUsize::new(0);
#[no_mangle]
pub unsafe extern "C" fn ftruncate64(fd: libc::c_int, len: libc::off64_t) -> libc::c_int {
    file_event("ftruncate", || fd_path(fd), || format!("{}", len));
    let f: unsafe extern "C" fn(libc::c_int, libc::off64_t) -> libc::c_int =
        std::mem::transmute(real(b"ftruncate64\0", &REAL_FTRUNCATE64));
    f(fd, len)
}

static REAL_OPEN64: AtomicUsize = AtomicUsize::new(0);
#[no_mangle]
pub unsafe extern "C" fn open64(path: *const libc::c_char, flags: libc::c_int, mode: libc::mode_t) -> libc::c_int {
    if flags & (libc::O_CREAT | libc::O_TRUNC) != 0 {
        file_event("open", || cstr(path), || format!("flags={:#x}", flags));
    }
    let f: unsafe extern "C" fn(*const libc::c_char, libc::c_int, libc::mode_t) -> libc::c_int =
        std::mem::transmute(real(b"open64\0", &REAL_OPEN64));
    f(path, flags, mode)
}

static REAL_OPEN: AtomicUsize = AtomicUsize::new(0);
#[no_mangle]
pub unsafe extern "C" fn open(path: *const libc::c_char, flags: libc::c_int, mode: libc::mode_t) -> libc::c_int {
    if flags & (libc::O_CREAT | libc::O_TRUNC) != 0 {
        file_event("open", || cstr(path), || format!("flags={:#x}", flags));
    }
    let f: unsafe extern "C" fn(*const libc::c_char, libc::c_int, libc::mode_t) -> libc::c_int =
        std::mem::transmute(real(b"open\0", &REAL_OPEN));
    f(path, flags, mode)
}
