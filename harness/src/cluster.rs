//! E3: deterministic in-process cluster simulator. N real `Databases` (each with its own data
//! directory, process id and the two real service futures polled by hand); replication links are
//! handed over by hook H3 and modelled as pairs of FIFO queues plus the loop bodies of
//! tcp_ops::handle_client (server side) and replication_ops::start_replication (connecting side);
//! everything that can block (election wait loops) runs on a "task" thread that holds the baton and
//! gives it back inside the interposed sleep. The only nondeterminism is the generated choice list.
use crate::node::{panic_text, use_dir, Node, PWD, USER};
use futures::channel::mpsc::Receiver;
use nundb::bo::*;
use nundb::process_request::process_request;
use std::cell::RefCell;
use std::collections::VecDeque;
use std::sync::atomic::Ordering;
use std::sync::{Arc, Condvar, Mutex};

// ------------------------------------------------------------------ tasks (baton threads)

#[derive(Clone, Debug, PartialEq)]
enum TState {
    Running,
    Sleeping(u64), // virtual wake-up time in ns
    Done,
}

struct TaskShared {
    st: Mutex<TState>,
    cv: Condvar,
    now_ns: Mutex<u64>,
    /// set when the task's node is killed or the case ends: every further sleep returns at once, so the
    /// thread runs to its end on its own (it only touches the dead node's private state)
    cancelled: std::sync::atomic::AtomicBool,
}

thread_local! {
    static CUR_TASK: RefCell<Option<Arc<TaskShared>>> = RefCell::new(None);
}

fn cluster_sleep(ns: u64) -> bool {
    let t = CUR_TASK.with(|c| c.borrow().clone());
    match t {
        None => false,
        Some(t) => {
            if t.cancelled.load(Ordering::SeqCst) {
                return true;
            }
            let now = *t.now_ns.lock().unwrap();
            let mut g = t.st.lock().unwrap();
            *g = TState::Sleeping(now + ns);
            t.cv.notify_all();
            while *g != TState::Running {
                g = t.cv.wait(g).unwrap();
            }
            drop(g);
            true
        }
    }
}

pub struct Task {
    shared: Arc<TaskShared>,
    handle: Option<std::thread::JoinHandle<()>>,
    pub what: String,
    pub node: usize,
    /// connection whose handler / reader this task is (it stays busy until the task ends)
    pub conn: Option<(usize, bool)>, // (conn index, is_server_side)
    result: Arc<Mutex<Option<Result<(), String>>>>,
}

impl Task {
    fn state(&self) -> TState {
        self.shared.st.lock().unwrap().clone()
    }
}

// ------------------------------------------------------------------ link offers (hook H3)

struct Offer {
    kind: &'static str,
    peer: String,
    local: String,
    rx: Receiver<String>,
}

static OFFERS: Mutex<Vec<Offer>> = Mutex::new(Vec::new());

fn on_offer(kind: &'static str, peer: &str, local: &str, _dbs: &Arc<Databases>, rx: Receiver<String>) -> Option<Receiver<String>> {
    OFFERS.lock().unwrap().push(Offer { kind, peer: peer.to_string(), local: local.to_string(), rx });
    None
}

static EVENTS: Mutex<Vec<String>> = Mutex::new(Vec::new());
fn on_event(what: &str) {
    EVENTS.lock().unwrap().push(what.to_string());
}

// ------------------------------------------------------------------ connections

pub struct Conn {
    pub from: usize,
    pub to: usize,
    pub kind: &'static str, // sec2pri | pri2sec | sec2sec | join | client
    c2s: VecDeque<(u64, String)>, // (enqueue stamp, line) written by the connecting side ("<EOF>" marks the close)
    s2c: VecDeque<(u64, String)>,
    member_rx: Option<Receiver<String>>,
    server_client: Option<Client>,
    server_rx: Option<Receiver<String>>,
    link_client: Option<Client>,
    server_busy: bool,
    reader_busy: bool,
    pub dead: bool,
    pub c2s_count: u64,
    pub s2c_count: u64,
}

pub struct SimNode {
    pub node: Option<Node>,
    pub addr: String,
    pub dir: String,
    pub pid: u128,
}

#[derive(Clone, Debug)]
pub struct Msg {
    pub from: usize,
    pub to: usize,
    pub kind: &'static str,
    pub dir: &'static str, // "c2s" | "s2c"
    pub line: String,
}

pub struct Cluster {
    pub nodes: Vec<SimNode>,
    pub conns: Vec<Conn>,
    pub tasks: Vec<Task>,
    pub now_ns: u64,
    pub trace: Vec<String>,
    pub delivered: Vec<Msg>,
    pub steps: u64,
    pub early_polls: u32,
    pub panics: Vec<String>,
    peers: Vec<String>,
    pub election_events: Vec<String>,
    /// the node's service loops may have queued work (set whenever code of that node ran)
    dirty_sup: Vec<bool>,
    dirty_rep: Vec<bool>,
    /// a candidate message reached a node that was itself waiting for acknowledgements
    /// virtual time that passed while messages were in flight since the cluster was last quiet
    early_elapsed_ns: u64,
    /// enqueue counter: the default choice is the action that has been waiting longest (fair, bounded delay)
    stamp: u64,
    dirty_sup_since: Vec<u64>,
    dirty_rep_since: Vec<u64>,
    pub overlapping_candidates: u64,
    /// a set-primary reached a node that believed it was the primary
    pub set_primary_to_primary: u64,
    /// client sessions that stay connected between commands (an arbiter, a watcher): (node, client + receiver)
    pub sessions: Vec<Option<(usize, Arc<Mutex<(Client, Receiver<String>)>>)>>,
    /// `run` stopped because a line longer than 1 MB was queued between two nodes
    pub runaway_line: bool,
}

#[derive(Clone, Debug, PartialEq)]
pub enum Action {
    /// deliver the next line of connection i to the server-side handler
    Serve(usize),
    /// deliver the next reply line of connection i to the connecting side's reader
    Read(usize),
    PumpRep(usize),
    PumpSup(usize),
    /// resume sleeping task i before its time (bounded): the poller observes an intermediate state
    EarlyPoll(usize),
}

/// yield points of nun-db at which another thread of the same process (the supervisor, the replication loop) may run
/// before the task goes on: the task parks like a sleeper of zero length
fn cluster_yield(site: &'static str) {
    if site.starts_with("election_win.") && std::env::var("NV_NO_ELECTION_WIN_YIELD").is_err() {
        cluster_sleep(0);
    }
}

pub fn install_hooks() {
    crate::interpose::virtual_clock(true);
    nundb::verif::set_yield_handler(Some(cluster_yield));
    crate::interpose::set_sleep_hook(Some(cluster_sleep));
    nundb::verif::set_link_handler(Some(on_offer));
    nundb::verif::set_event_handler(Some(on_event));
}

impl Cluster {
    pub fn new(scratch: &str, n: usize, pids: &[u128]) -> Cluster {
        install_hooks();
        OFFERS.lock().unwrap().clear();
        EVENTS.lock().unwrap().clear();
        let mut nodes = vec![];
        let mut peers = vec![];
        for i in 0..n {
            let addr = format!("127.0.0.1:30{}0", i + 1);
            peers.push(addr.clone());
            nodes.push(SimNode { node: None, addr, dir: format!("{}/n{}", scratch, i), pid: pids[i] });
        }
        Cluster { nodes, conns: vec![], tasks: vec![], now_ns: 0, trace: vec![], delivered: vec![], steps: 0, early_polls: 0, panics: vec![], peers, election_events: vec![], dirty_sup: vec![false; n], dirty_rep: vec![false; n], early_elapsed_ns: 0, stamp: 0, dirty_sup_since: vec![0; n], dirty_rep_since: vec![0; n], overlapping_candidates: 0, set_primary_to_primary: 0, sessions: vec![], runaway_line: false }
    }

    pub fn idx_of(&self, addr: &str) -> Option<usize> {
        self.nodes.iter().position(|n| n.addr == addr)
    }

    pub fn alive(&self, i: usize) -> bool {
        self.nodes[i].node.is_some()
    }

    fn next_stamp(&mut self) -> u64 {
        self.stamp += 1;
        self.stamp
    }

    fn mark_dirty(&mut self, node: usize) {
        let st = self.next_stamp();
        if !self.dirty_sup[node] {
            self.dirty_sup[node] = true;
            self.dirty_sup_since[node] = st;
        }
        if !self.dirty_rep[node] {
            self.dirty_rep[node] = true;
            self.dirty_rep_since[node] = st;
        }
    }

    fn log(&mut self, s: String) {
        if self.trace.len() < 4000 {
            self.trace.push(s);
        }
    }

    /// Starts node i the way the binary does: start-up block, then a short-lived "join" connection to
    /// every configured peer (sorted, as ask_to_join_all_replicas does), then the initial-election thread.
    pub fn boot(&mut self, i: usize) {
        let (dir, addr, pid) = (self.nodes[i].dir.clone(), self.nodes[i].addr.clone(), self.nodes[i].pid);
        let node = Node::boot(&dir, &addr, pid);
        self.nodes[i].node = Some(node);
        self.mark_dirty(i);
        self.log(format!("boot n{} pid={}", i, pid));
        let mut peers = self.peers.clone();
        peers.sort();
        for p in peers {
            if p == addr {
                continue;
            }
            let j = self.idx_of(&p).unwrap();
            if !self.alive(j) {
                continue; // connection refused
            }
            let mut c = self.new_conn(i, j, "join", None);
            let st = self.next_stamp();
            c.c2s.push_back((st, format!("auth {} {}\n", USER, PWD)));
            c.c2s.push_back((st, format!("join {}\n", addr)));
            c.c2s.push_back((st, "<EOF>".to_string()));
            self.conns.push(c);
        }
        let dbs = self.nodes[i].node.as_ref().unwrap().dbs.clone();
        self.spawn_task(i, None, "initial-election".to_string(), move || {
            nundb::election_ops::start_inital_election(dbs);
        });
    }

    fn new_conn(&mut self, from: usize, to: usize, kind: &'static str, member_rx: Option<Receiver<String>>) -> Conn {
        let (client, rx) = Client::new_empty_and_receiver();
        let mut s2c = VecDeque::new();
        let st = self.next_stamp();
        s2c.push_back((st, "ok \n".to_string())); // the server greets first
        let link_client = if kind == "join" || kind == "client" {
            None
        } else {
            let (lc, _rx) = Client::new_empty_and_receiver();
            lc.auth.store(true, Ordering::Relaxed);
            *lc.cluster_member.lock().unwrap() = Some(ClusterMember { name: self.nodes[from].addr.clone(), role: ClusterRole::Secoundary, sender: None });
            Some(lc)
        };
        Conn { from, to, kind, c2s: VecDeque::new(), s2c, member_rx, server_client: Some(client), server_rx: Some(rx), link_client, server_busy: false, reader_busy: false, dead: false, c2s_count: 0, s2c_count: 0 }
    }

    /// hook offers -> connections
    fn absorb_offers(&mut self) -> bool {
        let offers: Vec<Offer> = std::mem::take(&mut *OFFERS.lock().unwrap());
        let any = !offers.is_empty();
        for o in offers {
            let from = match self.idx_of(&o.local) {
                Some(i) => i,
                None => continue,
            };
            let to = self.idx_of(&o.peer);
            let target_up = to.map(|t| self.alive(t)).unwrap_or(false);
            self.log(format!("link n{} -> {} ({}){}", from, o.peer, o.kind, if target_up { "" } else { " REFUSED" }));
            if !target_up {
                // TcpStream::connect fails: start_replication returns at once
                if o.kind == "sec2pri" {
                    if let Some(n) = self.nodes[from].node.as_ref() {
                        n.dbs.remove_cluster_member(&o.peer);
                    }
                }
                continue;
            }
            let to = to.unwrap();
            let mut c = self.new_conn(from, to, o.kind, Some(o.rx));
            use_dir(&self.nodes[from].dir);
            let lines = nundb::replication_ops::verif_handshake_lines(&USER.to_string(), &PWD.to_string(), &self.nodes[from].addr, o.kind == "sec2pri");
            let st = self.next_stamp();
            for l in lines {
                c.c2s.push_back((st, l));
            }
            self.conns.push(c);
        }
        any
    }

    /// what nun-db queued for a peer goes onto the wire (writer half of start_replication), and what a
    /// server-side handler queued for its client goes back (tcp_ops::process_message)
    fn flush_channels(&mut self) -> bool {
        let mut any = false;
        let mut stamp = self.stamp;
        for c in self.conns.iter_mut() {
            if c.dead {
                // the peer is gone: writes fail (logged by nun-db), nothing is delivered
                if let Some(rx) = c.member_rx.as_mut() {
                    while let Ok(Some(_)) = rx.try_next() {}
                }
                continue;
            }
            if let Some(rx) = c.member_rx.as_mut() {
                while let Ok(Some(m)) = rx.try_next() {
                    // the link is a byte stream that the receiver reads line by line: a message that contains a line break
                    // arrives as several lines
                    for piece in m.split('\n').filter(|p| !p.trim_matches('\r').is_empty()) {
                        stamp += 1;
                        c.c2s.push_back((stamp, format!("{}\n", piece)));
                        any = true;
                    }
                }
            }
            if !c.server_busy {
                if let Some(rx) = c.server_rx.as_mut() {
                    while let Ok(Some(m)) = rx.try_next() {
                        stamp += 1;
                        c.s2c.push_back((stamp, m));
                        any = true;
                    }
                }
            }
        }
        self.stamp = stamp;
        any
    }

    pub fn spawn_task(&mut self, node: usize, conn: Option<(usize, bool)>, what: String, f: impl FnOnce() + Send + 'static) {
        let shared = Arc::new(TaskShared { st: Mutex::new(TState::Running), cv: Condvar::new(), now_ns: Mutex::new(self.now_ns), cancelled: std::sync::atomic::AtomicBool::new(false) });
        let result: Arc<Mutex<Option<Result<(), String>>>> = Arc::new(Mutex::new(None));
        let (s2, r2) = (shared.clone(), result.clone());
        let dir = self.nodes[node].dir.clone();
        let handle = std::thread::spawn(move || {
            use_dir(&dir);
            CUR_TASK.with(|c| *c.borrow_mut() = Some(s2.clone()));
            let r = std::panic::catch_unwind(std::panic::AssertUnwindSafe(f));
            CUR_TASK.with(|c| *c.borrow_mut() = None);
            *r2.lock().unwrap() = Some(r.map_err(panic_text));
            let mut g = s2.st.lock().unwrap();
            *g = TState::Done;
            s2.cv.notify_all();
        });
        let t = Task { shared, handle: Some(handle), what, node, conn, result };
        self.mark_dirty(node);
        self.wait_task(&t);
        self.tasks.push(t);
        self.reap();
    }

    fn wait_task(&self, t: &Task) {
        let mut g = t.shared.st.lock().unwrap();
        let mut waited = 0;
        while *g == TState::Running {
            let (ng, to) = t.shared.cv.wait_timeout(g, std::time::Duration::from_secs(5)).unwrap();
            g = ng;
            if to.timed_out() && *g == TState::Running {
                waited += 5;
                if waited >= 30 {
                    eprintln!("cluster simulator: task {:?} on n{} does not come back (watchdog)", t.what, t.node);
                    std::process::exit(2);
                }
            }
        }
    }

    fn resume(&mut self, ti: usize) {
        {
            let node = self.tasks[ti].node;
            self.mark_dirty(node);
            let t = &self.tasks[ti];
            *t.shared.now_ns.lock().unwrap() = self.now_ns;
            let mut g = t.shared.st.lock().unwrap();
            *g = TState::Running;
            t.shared.cv.notify_all();
        }
        let t = &self.tasks[ti];
        self.wait_task(t);
        self.reap();
    }

    /// lets the parked tasks (of one node, or all) run to their end without further scheduling
    fn cancel_tasks(&mut self, node: Option<usize>) {
        let mut keep = vec![];
        for mut t in std::mem::take(&mut self.tasks) {
            if node.map(|n| t.node == n).unwrap_or(true) {
                t.shared.cancelled.store(true, Ordering::SeqCst);
                {
                    let mut g = t.shared.st.lock().unwrap();
                    if *g != TState::Done {
                        *g = TState::Running;
                    }
                    t.shared.cv.notify_all();
                }
                if let Some(h) = t.handle.take() {
                    let _ = h.join();
                }
            } else {
                keep.push(t);
            }
        }
        self.tasks = keep;
    }

    /// finished tasks: record panics, release their connection
    fn reap(&mut self) {
        let mut i = 0;
        while i < self.tasks.len() {
            if self.tasks[i].state() == TState::Done {
                let mut t = self.tasks.remove(i);
                if let Some(h) = t.handle.take() {
                    let _ = h.join();
                }
                if let Some(Err(p)) = t.result.lock().unwrap().take() {
                    self.panics.push(format!("n{} {}: {} at {}", t.node, t.what, p, crate::node::last_panic_loc()));
                }
                if let Some((ci, server)) = t.conn {
                    if server {
                        self.conns[ci].server_busy = false;
                    } else {
                        self.conns[ci].reader_busy = false;
                    }
                }
            } else {
                i += 1;
            }
        }
    }

    /// enabled actions, the one that has been waiting longest first (the default choice is therefore a fair,
    /// bounded-delay schedule; generated choices deviate from it)
    pub fn enabled(&self) -> Vec<Action> {
        let mut w: Vec<(u64, Action)> = vec![];
        for (i, n) in self.nodes.iter().enumerate() {
            if n.node.is_some() {
                if self.dirty_sup[i] {
                    w.push((self.dirty_sup_since[i], Action::PumpSup(i)));
                }
                if self.dirty_rep[i] {
                    w.push((self.dirty_rep_since[i], Action::PumpRep(i)));
                }
            }
        }
        for (i, c) in self.conns.iter().enumerate() {
            if !c.server_busy && !c.c2s.is_empty() && self.alive(c.to) && c.server_client.is_some() {
                w.push((c.c2s[0].0, Action::Serve(i)));
            }
            if !c.reader_busy && !c.s2c.is_empty() && self.alive(c.from) && !c.dead {
                w.push((c.s2c[0].0, Action::Read(i)));
            }
        }
        w.sort_by_key(|(st, _)| *st);
        let mut v: Vec<Action> = w.into_iter().map(|(_, a)| a).collect();
        // the earliest sleeper may wake up while messages are still in flight, as long as the time that passes
        // this way stays far below the election timeout (message delays < timeout is the property's premise)
        if !v.is_empty() {
            let next = self.tasks.iter().enumerate().filter_map(|(i, t)| if let TState::Sleeping(w) = t.state() { Some((w, i)) } else { None }).min();
            if let Some((wake, i)) = next {
                let dt = wake.saturating_sub(self.now_ns);
                if self.early_elapsed_ns + dt <= 300_000_000 {
                    v.push(Action::EarlyPoll(i));
                }
            }
        }
        v
    }

    fn serve(&mut self, ci: usize) {
        let line = self.conns[ci].c2s.pop_front().unwrap().1;
        let (from, to, kind) = (self.conns[ci].from, self.conns[ci].to, self.conns[ci].kind);
        self.conns[ci].c2s_count += 1;
        let dbs = self.nodes[to].node.as_ref().unwrap().dbs.clone();
        let mut client = self.conns[ci].server_client.take().unwrap();
        self.conns[ci].server_busy = true;
        if self.delivered.len() < 20000 {
            self.delivered.push(Msg { from, to, kind, dir: "c2s", line: line.clone() });
        }
        self.log(format!("n{}->n{} [{}] {}", from, to, kind, line.trim_end()));
        if line.contains("election candidate") && self.tasks.iter().any(|t| t.node == to && t.state() != TState::Done) {
            self.overlapping_candidates += 1;
        }
        if line.starts_with("set-primary") && self.role(to) == Some(ClusterRole::Primary) {
            self.set_primary_to_primary += 1;
        }
        // the client object travels with the task and comes back through this slot
        let slot: Arc<Mutex<Option<Client>>> = Arc::new(Mutex::new(None));
        let slot2 = slot.clone();
        let eof = line == "<EOF>";
        self.spawn_task(to, Some((ci, true)), format!("serve {}", line.trim_end()), move || {
            if eof {
                // tail of tcp_ops::handle_client
                process_request("unwatch-all", &dbs, &mut client);
                let member = { client.cluster_member.lock().unwrap().clone() };
                if let Some(m) = member {
                    let (mut fake, _) = Client::new_empty_and_receiver();
                    fake.auth.store(true, Ordering::Relaxed);
                    let msg = match m.role {
                        ClusterRole::Primary => format!("leave {}", m.name),
                        _ => format!("replicate-leave {}", m.name),
                    };
                    process_request(&msg, &dbs, &mut fake);
                }
                client.left(&dbs);
            } else {
                match process_request(&line, &dbs, &mut client) {
                    Response::Error { msg } | Response::VersionError { msg, .. } => {
                        let _ = client.sender.try_send(format!("error {} \n", msg));
                    }
                    _ => {
                        let _ = client.sender.try_send("ok \n".to_string());
                    }
                }
            }
            *slot2.lock().unwrap() = Some(client);
        });
        // if the task already finished the client is back; otherwise it is collected later
        self.collect_client(ci, slot, eof);
    }

    fn collect_client(&mut self, ci: usize, slot: Arc<Mutex<Option<Client>>>, eof: bool) {
        let got = { slot.lock().unwrap().take() };
        if let Some(c) = got {
            if eof {
                self.conns[ci].server_client = None;
                self.conns[ci].server_rx = None;
                self.conns[ci].dead = true;
            } else {
                self.conns[ci].server_client = Some(c);
            }
        } else {
            PENDING_CLIENTS.with(|p| p.borrow_mut().push((ci, slot, eof)));
        }
    }

    fn collect_pending_clients(&mut self) {
        let pend: Vec<(usize, Arc<Mutex<Option<Client>>>, bool)> = PENDING_CLIENTS.with(|p| std::mem::take(&mut *p.borrow_mut()));
        for (ci, slot, eof) in pend {
            self.collect_client(ci, slot, eof);
        }
    }

    fn read(&mut self, ci: usize) {
        let line = self.conns[ci].s2c.pop_front().unwrap().1;
        let (from, to, kind) = (self.conns[ci].from, self.conns[ci].to, self.conns[ci].kind);
        self.conns[ci].s2c_count += 1;
        if self.delivered.len() < 20000 {
            self.delivered.push(Msg { from: to, to: from, kind, dir: "s2c", line: line.clone() });
        }
        let msg = line.trim().to_string();
        if msg == "ok" || self.conns[ci].link_client.is_none() {
            return; // ignored by the reader / nobody reads (join connections)
        }
        self.log(format!("n{}<-n{} [{}] {}", from, to, kind, msg));
        let dbs = self.nodes[from].node.as_ref().unwrap().dbs.clone();
        let mut client = self.conns[ci].link_client.take().unwrap();
        self.conns[ci].reader_busy = true;
        let slot: Arc<Mutex<Option<Client>>> = Arc::new(Mutex::new(None));
        let slot2 = slot.clone();
        self.spawn_task(from, Some((ci, false)), format!("read {}", msg), move || {
            process_request(&msg, &dbs, &mut client);
            *slot2.lock().unwrap() = Some(client);
        });
        let got = { slot.lock().unwrap().take() };
        if let Some(c) = got {
            self.conns[ci].link_client = Some(c);
        } else {
            PENDING_LINK_CLIENTS.with(|p| p.borrow_mut().push((ci, slot)));
        }
    }

    fn collect_pending_link_clients(&mut self) {
        let pend: Vec<(usize, Arc<Mutex<Option<Client>>>)> = PENDING_LINK_CLIENTS.with(|p| std::mem::take(&mut *p.borrow_mut()));
        for (ci, slot) in pend {
            let got = { slot.lock().unwrap().take() };
            if let Some(c) = got {
                self.conns[ci].link_client = Some(c);
            } else {
                PENDING_LINK_CLIENTS.with(|p| p.borrow_mut().push((ci, slot)));
            }
        }
    }

    pub fn perform(&mut self, a: &Action) {
        self.steps += 1;
        match a {
            Action::Serve(i) => self.serve(*i),
            Action::Read(i) => self.read(*i),
            Action::PumpRep(i) => {
                self.dirty_rep[*i] = false;
                if let Some(n) = self.nodes[*i].node.as_mut() {
                    n.pump_rep();
                    if !n.rep_alive {
                        self.panics.push(format!("n{} replication loop died at {}", i, crate::node::last_panic_loc()));
                    }
                }
            }
            Action::PumpSup(i) => {
                self.dirty_sup[*i] = false;
                if !self.dirty_rep[*i] {
                    // the supervisor may hand work to the replication loop
                    self.dirty_rep[*i] = true;
                    self.dirty_rep_since[*i] = self.stamp + 1;
                    self.stamp += 1;
                }
                if let Some(n) = self.nodes[*i].node.as_mut() {
                    n.pump_sup();
                    if !n.sup_alive {
                        self.panics.push(format!("n{} supervisor loop died at {}", i, crate::node::last_panic_loc()));
                    }
                }
            }
            Action::EarlyPoll(t) => {
                self.early_polls += 1;
                if let TState::Sleeping(wake) = self.tasks[*t].state() {
                    if wake > self.now_ns {
                        self.early_elapsed_ns += wake - self.now_ns;
                        self.now_ns = wake;
                    }
                }
                self.resume(*t);
            }
        }
        self.collect_pending_clients();
        self.collect_pending_link_clients();
        self.absorb_offers();
        self.flush_channels();
        for e in std::mem::take(&mut *EVENTS.lock().unwrap()) {
            self.election_events.push(e);
        }
    }

    /// Runs until quiescence (or the step budget). `choose` picks among the enabled deliveries
    /// (index into the list); the clock moves only when nothing else can.
    pub fn run(&mut self, choices: &mut dyn FnMut(usize) -> usize, max_steps: u64) -> bool {
        self.early_elapsed_ns = 0;
        self.run_continue(choices, max_steps)
    }

    /// continues a `run` that ran out of steps (same quiet period: the early-poll allowance is not renewed)
    pub fn run_continue(&mut self, choices: &mut dyn FnMut(usize) -> usize, max_steps: u64) -> bool {
        let start = self.steps;
        loop {
            if self.steps - start > max_steps {
                return false;
            }
            self.absorb_offers();
            self.flush_channels();
            self.collect_pending_clients();
            self.collect_pending_link_clients();
            // a line of a megabyte between nodes: an exchange whose messages keep growing (stopped before it eats the memory)
            if self.conns.iter().any(|c| c.c2s.iter().chain(c.s2c.iter()).any(|(_, l)| l.len() > (1 << 20))) {
                self.runaway_line = true;
                return false;
            }
            let en: Vec<Action> = self.enabled();
            if !en.is_empty() {
                let k = choices(en.len()).min(en.len() - 1);
                let a = en[k].clone();
                self.perform(&a);
                continue;
            }
            // nothing can be delivered: time passes for the earliest sleeper
            let next = self.tasks.iter().enumerate().filter_map(|(i, t)| if let TState::Sleeping(w) = t.state() { Some((w, i)) } else { None }).min();
            match next {
                Some((wake, ti)) => {
                    if wake > self.now_ns {
                        self.now_ns = wake;
                    }
                    self.steps += 1;
                    self.resume(ti);
                }
                None => return true, // quiescent
            }
        }
    }

    /// a client command on node i (its own short-lived session): runs as a task, replies are discarded
    pub fn client(&mut self, i: usize, lines: Vec<String>) -> Vec<String> {
        let dbs = self.nodes[i].node.as_ref().unwrap().dbs.clone();
        let out: Arc<Mutex<Vec<String>>> = Arc::new(Mutex::new(vec![]));
        let out2 = out.clone();
        self.log(format!("client@n{} {:?}", i, lines));
        self.spawn_task(i, None, format!("client {:?}", lines), move || {
            let (mut c, mut rx) = Client::new_empty_and_receiver();
            for l in lines {
                let r = process_request(&l, &dbs, &mut c);
                let mut msgs = vec![];
                while let Ok(Some(m)) = rx.try_next() {
                    msgs.push(m);
                }
                out2.lock().unwrap().push(format!("{} {:?}", crate::node::resp_text(&r), msgs));
            }
            process_request("unwatch-all", &dbs, &mut c);
            c.left(&dbs);
        });
        self.absorb_offers();
        self.flush_channels();
        let r = out.lock().unwrap().clone();
        r
    }

    /// opens a client session on node i that stays connected; returns its handle
    pub fn open_session(&mut self, i: usize) -> usize {
        let (c, rx) = Client::new_empty_and_receiver();
        self.sessions.push(Some((i, Arc::new(Mutex::new((c, rx))))));
        self.log(format!("session {} opened @n{}", self.sessions.len() - 1, i));
        self.sessions.len() - 1
    }

    /// sends lines on a session opened with `open_session`; returns reply + the messages pushed so far per line
    pub fn session_send(&mut self, sid: usize, lines: Vec<String>) -> Vec<String> {
        let (i, sess) = match self.sessions.get(sid).and_then(|s| s.clone()) {
            Some(x) => x,
            None => return vec![],
        };
        if self.nodes[i].node.is_none() {
            return vec![];
        }
        let dbs = self.nodes[i].node.as_ref().unwrap().dbs.clone();
        let out: Arc<Mutex<Vec<String>>> = Arc::new(Mutex::new(vec![]));
        let out2 = out.clone();
        self.log(format!("session {}@n{} {:?}", sid, i, lines));
        self.spawn_task(i, None, format!("session {:?}", lines), move || {
            let mut g = sess.lock().unwrap();
            for l in lines {
                let r = process_request(&l, &dbs, &mut g.0);
                let mut msgs = vec![];
                while let Ok(Some(m)) = g.1.try_next() {
                    msgs.push(m);
                }
                out2.lock().unwrap().push(format!("{} {:?}", crate::node::resp_text(&r), msgs));
            }
        });
        self.absorb_offers();
        self.flush_channels();
        let r = out.lock().unwrap().clone();
        r
    }

    /// what was pushed to a session since it last sent something
    pub fn session_drain(&mut self, sid: usize) -> Vec<String> {
        let mut msgs = vec![];
        if let Some(Some((_, sess))) = self.sessions.get(sid) {
            let mut g = sess.lock().unwrap();
            while let Ok(Some(m)) = g.1.try_next() {
                msgs.push(m);
            }
        }
        msgs
    }

    /// the session's connection ends
    pub fn close_session(&mut self, sid: usize) {
        if let Some(Some((i, sess))) = self.sessions.get(sid).cloned() {
            self.sessions[sid] = None;
            if self.nodes[i].node.is_none() {
                return;
            }
            let dbs = self.nodes[i].node.as_ref().unwrap().dbs.clone();
            self.spawn_task(i, None, "session closes".to_string(), move || {
                let mut g = sess.lock().unwrap();
                process_request("unwatch-all", &dbs, &mut g.0);
                g.0.left(&dbs);
            });
            self.absorb_offers();
            self.flush_channels();
        }
    }

    /// several client sessions on node i at once: their commands interleave at nun-db's lock acquisitions under an
    /// E2 baton schedule (one runnable thread at a time); what they replicate is delivered afterwards by `run`.
    /// Ok(per session: reply texts) or Err(watchdog text)
    pub fn clients_interleaved_with(&mut self, i: usize, programs: Vec<Vec<String>>, schedule: &[u16], sites: fn(&str) -> bool) -> Result<(Vec<Vec<String>>, u64), String> {
        let dbs = self.nodes[i].node.as_ref().unwrap().dbs.clone();
        use_dir(&self.nodes[i].dir);
        self.log(format!("clients-interleaved@n{} {:?} schedule {:?}", i, programs, schedule));
        let tasks: Vec<Box<dyn FnOnce(&crate::sched::TaskCtx) -> Vec<String> + Send>> = programs
            .into_iter()
            .map(|lines| {
                let dbs = dbs.clone();
                let f: Box<dyn FnOnce(&crate::sched::TaskCtx) -> Vec<String> + Send> = Box::new(move |t: &crate::sched::TaskCtx| {
                    let (mut c, mut rx) = Client::new_empty_and_receiver();
                    let mut out = vec![];
                    for l in lines {
                        t.pause("cmd");
                        let r = process_request(&l, &dbs, &mut c);
                        while let Ok(Some(_)) = rx.try_next() {}
                        out.push(crate::node::resp_text(&r));
                    }
                    process_request("unwatch-all", &dbs, &mut c);
                    c.left(&dbs);
                    out
                });
                f
            })
            .collect();
        let (results, info) = crate::sched::run(tasks, schedule, sites)?;
        nundb::verif::set_yield_handler(Some(cluster_yield)); // (the baton scheduler installed its own and removed it)
        self.mark_dirty(i);
        self.absorb_offers();
        self.flush_channels();
        let mut out = vec![];
        for r in results {
            match r {
                Ok(v) => out.push(v),
                Err(p) => {
                    self.panics.push(format!("n{} interleaved client: {}", i, p));
                    out.push(vec![]);
                }
            }
        }
        Ok((out, info.switches))
    }

    /// the process of node i stops (kill): every connection it takes part in is closed
    pub fn kill(&mut self, i: usize) {
        self.log(format!("kill n{}", i));
        // threads of that process die with it
        self.cancel_tasks(Some(i));
        self.nodes[i].node = None;
        for s in self.sessions.iter_mut() {
            if s.as_ref().map(|x| x.0 == i).unwrap_or(false) {
                *s = None;
            }
        }
        for c in self.conns.iter_mut() {
            if c.dead {
                continue;
            }
            if c.from == i {
                // the peer's handler sees EOF after what is already on the wire
                c.member_rx = None;
                c.s2c.clear();
                if c.c2s.back().map(|l| l.1 != "<EOF>").unwrap_or(true) {
                    self.stamp += 1;
                    c.c2s.push_back((self.stamp, "<EOF>".to_string()));
                }
            } else if c.to == i {
                // our server side is gone: the connecting side's reader ends, its writes fail
                c.dead = true;
                c.c2s.clear();
                c.s2c.clear();
                c.server_client = None;
                c.server_rx = None;
            }
        }
    }

    pub fn role(&self, i: usize) -> Option<ClusterRole> {
        self.nodes[i].node.as_ref().map(|n| n.role())
    }

    /// (member name, role as this node sees it)
    pub fn members(&self, i: usize) -> Vec<(String, String)> {
        match self.nodes[i].node.as_ref() {
            None => vec![],
            Some(n) => {
                let cs = n.dbs.cluster_state.lock().unwrap();
                let m = cs.members.lock().unwrap();
                let mut v: Vec<(String, String)> = m.iter().map(|(k, v)| (k.clone(), v.role.to_string())).collect();
                v.sort();
                v
            }
        }
    }

    pub fn trace_tail(&self, n: usize) -> Vec<String> {
        self.trace.iter().rev().take(n).rev().cloned().collect()
    }
}

thread_local! {
    static PENDING_CLIENTS: RefCell<Vec<(usize, Arc<Mutex<Option<Client>>>, bool)>> = RefCell::new(Vec::new());
    static PENDING_LINK_CLIENTS: RefCell<Vec<(usize, Arc<Mutex<Option<Client>>>)>> = RefCell::new(Vec::new());
}

impl Drop for Cluster {
    fn drop(&mut self) {
        if std::env::var("NV_TRACE").is_ok() {
            for l in self.trace.iter() {
                eprintln!("  {}", l);
            }
        }
        self.cancel_tasks(None);
        PENDING_CLIENTS.with(|p| p.borrow_mut().clear());
        PENDING_LINK_CLIENTS.with(|p| p.borrow_mut().clear());
        OFFERS.lock().unwrap().clear();
    }
}
