//! E2: "baton" scheduler. Real OS threads, exactly one runnable at a time; a task hands the baton
//! back at the yield points hooked into nun-db (before every Database.map / Watchers.map
//! acquisition) and when it ends. The schedule is a generated Vec<u16>, so it shrinks and replays
//! together with the programs.
use std::cell::RefCell;
use std::sync::{Arc, Condvar, Mutex};
use std::time::Duration;

#[derive(Clone, Copy, PartialEq, Debug)]
enum St {
    Runnable,
    Done,
}

struct State {
    /// Some(task) = that task holds the baton; None = the controller does
    current: Option<usize>,
    st: Vec<St>,
    site: Vec<&'static str>,
    clock: u64,
    switches: u64,
    yields: u64,
    last: Option<usize>,
    trace: Vec<(usize, &'static str)>,
    panicked: Vec<Option<String>>,
    /// the task gave the baton back because a lock it needs is held by a parked task: it is not picked again before
    /// another task has run
    blocked: Vec<bool>,
}

pub struct Sched {
    m: Mutex<State>,
    cv: Condvar,
    filter: fn(&str) -> bool,
}

thread_local! {
    static TASK: RefCell<Option<(Arc<Sched>, usize)>> = RefCell::new(None);
}

fn on_yield(site: &'static str) {
    let t = TASK.with(|t| t.borrow().clone());
    if let Some((s, id)) = t {
        if site.starts_with("blocked.") {
            s.yield_blocked(id, site);
        } else if (s.filter)(site) {
            s.m.lock().unwrap().blocked[id] = false;
            s.yield_point(id, site);
        }
    }
}

/// handle given to every task
pub struct TaskCtx {
    sched: Arc<Sched>,
    pub id: usize,
}

impl TaskCtx {
    /// logical time: advances at every scheduling decision
    pub fn now(&self) -> u64 {
        self.sched.m.lock().unwrap().clock
    }
    /// an explicit yield point of the harness (between two commands of one client)
    pub fn pause(&self, site: &'static str) {
        self.sched.m.lock().unwrap().blocked[self.id] = false;
        self.sched.yield_point(self.id, site);
    }
}

pub struct RunInfo {
    pub switches: u64,
    pub yields: u64,
    pub trace: Vec<(usize, &'static str)>,
    pub choices_used: usize,
}

impl Sched {
    fn yield_point(&self, id: usize, site: &'static str) {
        let mut g = self.m.lock().unwrap();
        if g.current != Some(id) {
            // a thread that is not the baton holder reached a yield point (e.g. during set-up): ignore
            return;
        }
        g.yields += 1;
        g.site[id] = site;
        g.current = None;
        self.cv.notify_all();
        while g.current != Some(id) {
            g = self.cv.wait(g).unwrap();
        }
    }

    fn yield_blocked(&self, id: usize, site: &'static str) {
        {
            let mut g = self.m.lock().unwrap();
            if g.current != Some(id) {
                // not under the scheduler (set-up): give the holder a chance the ordinary way
                drop(g);
                std::thread::yield_now();
                return;
            }
            g.blocked[id] = true;
        }
        self.yield_point(id, site);
    }

    fn finish(&self, id: usize, panic: Option<String>) {
        let mut g = self.m.lock().unwrap();
        g.st[id] = St::Done;
        g.blocked[id] = false;
        g.panicked[id] = panic;
        if g.current == Some(id) {
            g.current = None;
        }
        self.cv.notify_all();
    }
}

pub fn lock_sites(site: &str) -> bool {
    site.contains(".map.") || site.contains(".watchers.") || site == "cmd"
}

/// Runs the tasks under the schedule. choice 0 = keep running the task that ran last (if it still
/// can), otherwise runnable[(c-1) * len >> 16]; an exhausted schedule keeps running the last task.
/// Err = the watchdog fired (a task did not come back within 20 s).
pub fn run<T: Send + 'static>(tasks: Vec<Box<dyn FnOnce(&TaskCtx) -> T + Send>>, choices: &[u16], filter: fn(&str) -> bool) -> Result<(Vec<Result<T, String>>, RunInfo), String> {
    let n = tasks.len();
    let sched = Arc::new(Sched {
        m: Mutex::new(State { current: None, st: vec![St::Runnable; n], site: vec!["start"; n], clock: 0, switches: 0, yields: 0, last: None, trace: vec![], panicked: vec![None; n], blocked: vec![false; n] }),
        cv: Condvar::new(),
        filter,
    });
    nundb::verif::set_yield_handler(Some(on_yield));
    let mut handles = vec![];
    let data_dir = nundb::verif::data_dir();
    for (id, task) in tasks.into_iter().enumerate() {
        let s = sched.clone();
        let dir = data_dir.clone();
        handles.push(std::thread::spawn(move || {
            nundb::verif::set_data_dir(dir);
            TASK.with(|t| *t.borrow_mut() = Some((s.clone(), id)));
            // wait for the baton before doing anything
            {
                let mut g = s.m.lock().unwrap();
                while g.current != Some(id) {
                    g = s.cv.wait(g).unwrap();
                }
            }
            let ctx = TaskCtx { sched: s.clone(), id };
            let r = std::panic::catch_unwind(std::panic::AssertUnwindSafe(|| task(&ctx)));
            TASK.with(|t| *t.borrow_mut() = None);
            match r {
                Ok(v) => {
                    s.finish(id, None);
                    Ok(v)
                }
                Err(e) => {
                    let msg = crate::node::panic_text(e);
                    s.finish(id, Some(msg.clone()));
                    Err(msg)
                }
            }
        }));
    }
    let mut pos = 0usize;
    let mut stuck = None;
    loop {
        let mut g = sched.m.lock().unwrap();
        let alive: Vec<usize> = (0..n).filter(|i| g.st[*i] == St::Runnable).collect();
        if alive.is_empty() {
            break;
        }
        let runnable: Vec<usize> = alive.iter().cloned().filter(|i| !g.blocked[*i]).collect();
        if runnable.is_empty() {
            stuck = Some(format!("deadlock: every live task waits for a lock ({:?})", alive.iter().map(|i| g.site[*i]).collect::<Vec<_>>()));
            break;
        }
        let c = if pos < choices.len() { choices[pos] } else { 0 };
        pos += 1;
        let pick = match (c, g.last) {
            (0, Some(l)) if runnable.contains(&l) => l,
            (0, _) => runnable[0],
            (c, _) => runnable[(((c - 1) as usize) * runnable.len()) >> 16],
        };
        if g.last.is_some() && g.last != Some(pick) && runnable.contains(&g.last.unwrap()) {
            g.switches += 1;
        }
        g.last = Some(pick);
        g.clock += 1;
        let site = g.site[pick];
        g.trace.push((pick, site));
        g.current = Some(pick);
        sched.cv.notify_all();
        // wait for the baton to come back
        let mut waited = Duration::from_secs(0);
        while g.current.is_some() {
            let (ng, to) = sched.cv.wait_timeout(g, Duration::from_secs(5)).unwrap();
            g = ng;
            if to.timed_out() && g.current.is_some() {
                waited += Duration::from_secs(5);
                if waited >= Duration::from_secs(20) {
                    stuck = Some(format!("task {} did not come back from site {:?}", pick, site));
                    break;
                }
            }
        }
        if stuck.is_some() {
            break;
        }
        // whoever waited for a lock may try again once somebody else has made progress (a task that only found the
        // lock taken has not)
        if !g.blocked[pick] {
            for j in 0..n {
                g.blocked[j] = false;
            }
        }
    }
    nundb::verif::set_yield_handler(None);
    if let Some(s) = stuck {
        // threads are left behind; the worker process reports exit 2
        return Err(s);
    }
    let mut out = vec![];
    for h in handles {
        out.push(h.join().unwrap_or_else(|_| Err("task thread panicked outside the task".to_string())));
    }
    let g = sched.m.lock().unwrap();
    let info = RunInfo { switches: g.switches, yields: g.yields, trace: g.trace.clone(), choices_used: pos.min(choices.len()) };
    Ok((out, info))
}

/// All schedules of `len` decisions with at most two forced choices (the rest = 0 = "keep running the same
/// task"): a CHESS-style pre-emption bound. With n runnable tasks the forced choice values select each of them.
pub fn bounded_schedules(len: usize, ntasks: usize) -> Vec<Vec<u16>> {
    let picks: Vec<u16> = (0..ntasks).map(|i| (((i as u32 * 65536) / ntasks as u32) + 2) as u16).collect();
    let mut out = vec![vec![0u16; len]];
    for i in 0..len {
        for a in picks.iter() {
            let mut s = vec![0u16; len];
            s[i] = *a;
            out.push(s.clone());
            for j in i + 1..len {
                for b in picks.iter() {
                    let mut s2 = s.clone();
                    s2[j] = *b;
                    out.push(s2);
                }
            }
        }
    }
    out
}
