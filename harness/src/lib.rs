pub mod crash;
pub mod interpose;
pub mod model;
pub mod node;
pub mod props;
pub mod report;
pub mod sched;
pub mod transport;
