//! A `log` sink that only counts/keeps error-level records (to tell "reported" from "silent").
use std::sync::atomic::{AtomicU64, Ordering};
use std::sync::Mutex;

pub static ERRORS: AtomicU64 = AtomicU64::new(0);
pub static LAST: Mutex<String> = Mutex::new(String::new());

struct Sink;
impl log::Log for Sink {
    fn enabled(&self, m: &log::Metadata) -> bool {
        m.level() <= log::Level::Error
    }
    fn log(&self, r: &log::Record) {
        if r.level() <= log::Level::Error {
            ERRORS.fetch_add(1, Ordering::SeqCst);
            if let Ok(mut g) = LAST.lock() {
                *g = format!("{}", r.args());
            }
        }
    }
    fn flush(&self) {}
}
static SINK: Sink = Sink;

pub fn install() {
    let _ = log::set_logger(&SINK);
    log::set_max_level(log::LevelFilter::Error);
}
pub fn errors() -> u64 {
    ERRORS.load(Ordering::SeqCst)
}
