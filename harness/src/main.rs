//! nv <property> --tier quick|thorough --seed N --worker I --workers N --known FILE --out FILE [--replay FILE]
use nv::report::{Ctx, Known, Report, Tier};
use std::time::Instant;

fn arg(args: &[String], name: &str) -> Option<String> {
    args.iter().position(|a| a == name).and_then(|i| args.get(i + 1).cloned())
}

fn main() {
    let args: Vec<String> = std::env::args().collect();
    if args.len() < 2 {
        eprintln!("usage: nv <property|selftest> [options]");
        std::process::exit(2);
    }
    let prop = args[1].clone();
    if prop == "clusterdemo" {
        nv::node::record_panic_locations();
        let scratch = format!("/dev/shm/nv-demo-{}", std::process::id());
        let t0 = Instant::now();
        let mut c = nv::cluster::Cluster::new(&scratch, 3, &[100, 200, 300]);
        for i in 0..3 {
            c.boot(i);
        }
        let ok = c.run(&mut |_n| 0, 100_000);
        println!("quiescent={} steps={} virtual_ms={} real={:?}", ok, c.steps, c.now_ns / 1_000_000, t0.elapsed());
        for i in 0..3 {
            println!("n{} role={:?} members={:?}", i, c.role(i).map(|r| r.to_string()), c.members(i));
        }
        let out = c.client(0, vec![format!("auth {} {}", nv::node::USER, nv::node::PWD), "create-db d tok".into(), "use-db d tok".into(), "set k v1".into()]);
        println!("client: {:?}", out);
        let ok = c.run(&mut |_n| 0, 100_000);
        println!("quiescent={} steps={}", ok, c.steps);
        for i in 0..3 {
            let d = c.nodes[i].node.as_ref().unwrap().dump();
            println!("n{} d={:?} pending={}", i, d.get("d"), c.nodes[i].node.as_ref().unwrap().pending_ops());
        }
        c.kill(0);
        let ok = c.run(&mut |_n| 0, 100_000);
        println!("after kill n0: quiescent={} steps={} virtual_ms={}", ok, c.steps, c.now_ns / 1_000_000);
        for i in 0..3 {
            println!("n{} role={:?} members={:?}", i, c.role(i).map(|r| r.to_string()), c.members(i));
        }
        println!("panics: {:?}", c.panics);
        println!("events: {:?}", c.election_events);
        if std::env::var("NV_TRACE").is_ok() {
            for l in c.trace.iter() {
                println!("  {}", l);
            }
        }
        drop(c);
        let _ = std::fs::remove_dir_all(&scratch);
        return;
    }
    if prop == "c10-child" {
        // nv c10-child <scratch dir> <auth: none|db|admin> <file holding one line>: the line is executed by a thread
        // with the default stack of a connection thread; whatever happens short of the process dying is exit 0
        std::process::exit(nv::props::c10::child_main(&args[2], &args[3], &args[4]));
    }
    if prop == "selftest" {
        let ok = nv::props::selftest();
        std::process::exit(if ok { 0 } else { 2 });
    }
    let tier = match arg(&args, "--tier").as_deref() {
        Some("thorough") => Tier::Thorough,
        _ => Tier::Quick,
    };
    let seed: u64 = arg(&args, "--seed").and_then(|s| s.parse().ok()).unwrap_or(1);
    let worker: u32 = arg(&args, "--worker").and_then(|s| s.parse().ok()).unwrap_or(0);
    let workers: u32 = arg(&args, "--workers").and_then(|s| s.parse().ok()).unwrap_or(1);
    let known: Vec<Known> = match arg(&args, "--known") {
        Some(p) => nv::report::parse_known(&std::fs::read_to_string(&p).unwrap_or_default()),
        None => vec![],
    };
    // a replay is strict (nothing is filtered); a directed probe filters every listed finding but its own
    // (NV_REPLAY_FILTER_KNOWN=1, an investigation aid, replays with the listed findings filtered instead)
    let known: Vec<Known> = if arg(&args, "--replay").is_some() && std::env::var("NV_REPLAY_FILTER_KNOWN").is_err() {
        vec![]
    } else if let Some(which) = arg(&args, "--probe-known") {
        known.into_iter().map(|mut k| { if k.id == which { k.status = "probe".to_string(); } k }).collect()
    } else {
        known
    };
    let out = arg(&args, "--out");
    nv::node::cap_memory(12 << 30);
    let ctx = Ctx::new(&prop, tier, seed, worker, workers, known);
    // threads that nun-db starts itself (HTTP workers, ...) have no per-thread directory: give the
    // process-wide default (NUN_DBS_DIR is read once) a scratch directory of its own
    let default_dir = ctx.scratch.join("default");
    std::fs::create_dir_all(&default_dir).unwrap();
    std::env::set_var("NUN_DBS_DIR", &default_dir);
    let mut rep = Report { property: prop.clone(), tier: if ctx.quick() { "quick".into() } else { "thorough".into() }, seed, worker, ..Default::default() };
    let t0 = Instant::now();
    if let Some(path) = arg(&args, "--decode-bytes") {
        // an input of a cargo-fuzz target (fuzz/fuzz_targets) -> the replay file of the case it decodes to
        let data = std::fs::read(&path).expect("cannot read the fuzz input");
        let case = match prop.as_str() {
            "C10" => nv::fuzzglue::decode_c10(&data).map(|c| serde_json::to_value(c).unwrap()),
            "C12" => Some(serde_json::to_value(nv::fuzzglue::decode_c12(&data)).unwrap()),
            _ => None,
        };
        let to = arg(&args, "--to").expect("--decode-bytes needs --to FILE");
        match case {
            Some(case) => {
                let body = serde_json::json!({"property": prop, "engine": "fuzz-bytes", "sig": "", "detail": format!("decoded from {}", path), "env": {}, "case": case});
                std::fs::write(&to, serde_json::to_string_pretty(&body).unwrap()).unwrap();
                std::process::exit(0);
            }
            None => {
                eprintln!("no decoder for {} / empty input", prop);
                std::process::exit(2);
            }
        }
    }
    let code = if let Some(path) = arg(&args, "--replay") {
        let text = std::fs::read_to_string(&path).expect("cannot read replay file");
        let j: serde_json::Value = serde_json::from_str(&text).expect("replay file is not JSON");
        let engine = j["engine"].as_str().unwrap_or("").to_string();
        match nv::props::replay(&ctx, &prop, &engine, &j["case"]) {
            Ok(None) => {
                println!("replay: case passes");
                0
            }
            Ok(Some((sig, detail))) => {
                println!("replay: FAIL sig={} detail={}", sig, detail);
                rep.failures.push(nv::report::Failure { sig, detail, engine, case: j["case"].clone(), env: nv::report::nun_env() });
                1
            }
            Err(e) => {
                eprintln!("replay error: {}", e);
                2
            }
        }
    } else if let Some(which) = arg(&args, "--probe-known") {
        // directed probe: replay the stored case of one listed known finding (its NUN_* env is set by the driver)
        let mut reproduced = vec![];
        for k in ctx.known.iter().filter(|k| k.property == prop && k.status == "probe" && k.id == which) {
            match nv::props::replay(&ctx, &prop, &k.engine, &k.probe) {
                Ok(Some((sig, _))) if sig == k.sig => reproduced.push(k.id.clone()),
                Ok(Some((sig, detail))) => rep.notes.push(format!("probe {} failed with a different signature: {} ({})", k.id, sig, detail)),
                Ok(None) => {}
                Err(e) => rep.notes.push(format!("probe {} could not run: {}", k.id, e)),
            }
        }
        rep.known_reproduced = reproduced;
        0
    } else {
        if !nv::props::run(&ctx, &mut rep) {
            eprintln!("unknown property {}", prop);
            std::process::exit(2);
        }
        if rep.failures.is_empty() { 0 } else { 1 }
    };
    rep.wall_s = t0.elapsed().as_secs_f64();
    let text = serde_json::to_string(&rep).unwrap();
    match out {
        Some(p) => std::fs::write(p, text).unwrap(),
        None => println!("{}", text),
    }
    drop(ctx);
    std::process::exit(code);
}
