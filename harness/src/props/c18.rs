//! C18 — the S3 storage strategies restore what the disk strategy would (C06's histories and oracle
//! against an in-process S3 stub, with scripted faults).
use crate::props::c06::{self, Op};
use crate::report::{explore_with, replay_guarded, Ctx, Outcome, Report};
use crate::s3stub::{Faults, Stub};
use proptest::prelude::*;
use serde::{Deserialize, Serialize};
use serde_json::Value as J;
use std::collections::BTreeMap;
use std::sync::atomic::Ordering;
use std::sync::OnceLock;

#[derive(Clone, Debug, Serialize, Deserialize, PartialEq)]
pub enum Fault {
    None,
    PutFailsOnce { n: u64 },
    /// `times` consecutive PUT requests from the n-th on fail (3-4 exhaust the SDK's own retries, so nun-db's retry has to act)
    PutFailsTimes { n: u64, times: u64 },
    /// one PUT is answered 409 (an error the SDK does not retry by itself)
    PutFailsOnceNotRetriable { n: u64 },
    PutFailsAlways { n: u64 },
    GetFailsOnce { n: u64 },
    /// one GET is answered 403 (an error the SDK does not retry by itself)
    GetFailsOnceNotRetriable { n: u64 },
    /// every PUT of ONE object fails, for good (partition `part` of every database with s3_patition; the keys object (0) or
    /// the values object (else) with s3), all other objects are stored normally
    PutOfOneObjectFailsAlways { part: u8 },
    /// no fault: while the n-th PUT of the case is in flight (the uploader waits for its answer) a client that has the
    /// database of that object selected rewrites every plain key of it. Whether or not the write is part of the running
    /// snapshot, the NEXT snapshot and restart must bring it back
    WriteDuringPut { n: u64 },
}

#[derive(Clone, Debug, Serialize, Deserialize)]
pub struct Case {
    pub base: c06::Case,
    pub fault: Fault,
    /// the store answers ListObjectsV2 with at most this many keys per request (0 = 1000, S3's own limit): more objects
    /// than one page holds is what a store with more than 100 databases x 10 partitions looks like
    #[serde(default)]
    pub list_page: usize,
}

static STUB: OnceLock<Stub> = OnceLock::new();

fn strategy_name() -> String {
    std::env::var("NUN_STORAGE_STRATEGY").unwrap_or_else(|_| "disk".to_string())
}

pub fn setup() -> &'static Stub {
    STUB.get_or_init(|| {
        let stub = Stub::start();
        std::env::set_var("NUN_S3_API_URL", format!("http://127.0.0.1:{}", stub.port));
        std::env::set_var("NUN_S3_RETRY", "2");
        crate::node::SKIP_PROBE.store(true, Ordering::SeqCst);
        crate::errlog::install();
        stub
    })
}

pub fn case_strategy() -> impl Strategy<Value = Case> {
    let fault = prop_oneof![
        6 => Just(Fault::None),
        1 => (1..6u64).prop_map(|n| Fault::PutFailsOnce { n }),
        1 => (1..6u64, 3..5u64).prop_map(|(n, times)| Fault::PutFailsTimes { n, times }),
        1 => (1..6u64).prop_map(|n| Fault::PutFailsOnceNotRetriable { n }),
        1 => (1..6u64).prop_map(|n| Fault::PutFailsAlways { n }),
        1 => (1..8u64).prop_map(|n| Fault::GetFailsOnce { n }),
        1 => (1..8u64).prop_map(|n| Fault::GetFailsOnceNotRetriable { n }),
        2 => (0..10u8).prop_map(|part| Fault::PutOfOneObjectFailsAlways { part }),
        3 => (1..8u64).prop_map(|n| Fault::WriteDuringPut { n }),
    ];
    (c06::case_strategy(16), fault, prop_oneof![2 => Just(0usize), 1 => 1..4usize]).prop_map(|(base, fault, list_page)| Case { base, fault, list_page })
}

pub fn run_case(ctx: &Ctx, case: &Case) -> Outcome {
    let stub = setup();
    stub.reset();
    *stub.faults.lock().unwrap() = match case.fault {
        Fault::None | Fault::WriteDuringPut { .. } => Faults::default(),
        Fault::PutFailsOnce { n } => Faults { put_fail: Some((n, 1, 500)), get_fail: None, put_fail_suffix: None, ..Faults::default() },
        Fault::PutFailsTimes { n, times } => Faults { put_fail: Some((n, times, 500)), get_fail: None, put_fail_suffix: None, ..Faults::default() },
        Fault::PutFailsOnceNotRetriable { n } => Faults { put_fail: Some((n, 1, 409)), get_fail: None, put_fail_suffix: None, ..Faults::default() },
        Fault::PutFailsAlways { n } => Faults { put_fail: Some((n, u64::MAX, 500)), get_fail: None, put_fail_suffix: None, ..Faults::default() },
        Fault::GetFailsOnce { n } => Faults { put_fail: None, get_fail: Some(n), put_fail_suffix: None, ..Faults::default() },
        Fault::GetFailsOnceNotRetriable { n } => Faults { put_fail: None, get_fail: Some(n), get_fail_status: 403, ..Faults::default() },
        Fault::PutOfOneObjectFailsAlways { part } => {
            let nparts: u8 = std::env::var("NUN_S3_NUMBER_OF_PARTITIONS").ok().and_then(|s| s.parse().ok()).unwrap_or(1);
            let suffix = if strategy_name() == "s3" { if part == 0 { "nun.keys".to_string() } else { "nun.values".to_string() } } else { format!("/{}.nun", part % nparts.max(1)) };
            Faults { put_fail: None, get_fail: None, put_fail_suffix: Some(suffix), ..Faults::default() }
        }
    };
    // the write-during-PUT event: armed only while a snapshot step runs
    let during: std::sync::Arc<std::sync::Mutex<Option<(std::sync::Arc<nundb::bo::Databases>, String)>>> = std::sync::Arc::new(std::sync::Mutex::new(None));
    let written: std::sync::Arc<std::sync::Mutex<Vec<(String, String)>>> = std::sync::Arc::new(std::sync::Mutex::new(vec![]));
    if let Fault::WriteDuringPut { n } = case.fault {
        let (d2, w2) = (during.clone(), written.clone());
        *crate::s3stub::ON_PUT.lock().unwrap() = Some(Box::new(move |path: &str, k: u64| {
            if k != n {
                return;
            }
            let armed = d2.lock().unwrap().clone();
            if let Some((dbs, dir)) = armed {
                crate::node::use_dir(&dir);
                // .../<database>/<object>
                let comps: Vec<&str> = path.trim_matches('/').split('/').collect();
                if comps.len() < 2 {
                    return;
                }
                let db = comps[comps.len() - 2].to_string();
                let keys: Vec<String> = match dbs.map.read().unwrap().get(&db) {
                    Some(d) => d.map.read().unwrap().iter().filter(|(k, v)| !k.starts_with('$') && !(v.state == nundb::bo::ValueStatus::Deleted && v.value == "<Empty>")).map(|(k, _)| k.clone()).collect(),
                    None => return,
                };
                // a session that selected the database before the snapshot began
                let (mut client, _rx) = nundb::bo::Client::new_empty_and_receiver();
                client.auth.store(true, Ordering::SeqCst);
                *client.selected_db.name.write().unwrap() = Some(db.clone());
                for key in keys {
                    let _ = nundb::process_request::process_request(&format!("set {} written-during-the-put", key), &dbs, &mut client);
                    w2.lock().unwrap().push((db.clone(), key));
                }
            }
        }));
    } else {
        *crate::s3stub::ON_PUT.lock().unwrap() = None;
    }
    stub.faults.lock().unwrap().list_page = case.list_page;
    let strat = strategy_name();
    let dir = ctx.fresh_dir();
    let mut w = c06::World::new(&dir, &case.base.strategies);
    let mut fail: Option<(String, String)> = None;
    let mut known_hits: BTreeMap<String, u64> = BTreeMap::new();
    let mut ops: Vec<Op> = case.base.ops.clone();
    ops.push(Op::RestartKill);
    let mut reported = false;
    let mut incremental_after_snapshot_with_untouched_and_removed = false;
    let mut snapshots_done = 0;
    let mut wrote_during_a_put = false;
    'ops: for (i, op) in ops.iter().enumerate() {
        let failed_puts_before = stub.failed_puts.load(Ordering::SeqCst);
        let failed_gets_before = stub.failed_gets.load(Ordering::SeqCst);
        let errors_before = crate::errlog::errors();
        *during.lock().unwrap() = match (op, w.node.as_ref()) {
            (Op::Tick, Some(n)) => Some((n.dbs.clone(), w.dir.clone())),
            _ => None,
        };
        let results: Vec<(String, String, String)> = match op {
            Op::RestartClean | Op::RestartKill => {
                let stub2 = stub.clone();
                let s3 = strat == "s3";
                c06::restart_guarded(&mut w, *op == Op::RestartClean, &move || !(s3 && stub2.failed_puts.load(Ordering::SeqCst) > failed_puts_before))
            }
            o => {
                if let Op::Tick = o {
                    if !w.queued.is_empty() {
                        snapshots_done += 1;
                        if snapshots_done >= 2 {
                            incremental_after_snapshot_with_untouched_and_removed = true;
                        }
                    }
                }
                match c06::step(&mut w, o) {
                    Some((sig, d)) => {
                        let mut parts = sig.splitn(3, '|');
                        let (_p, what, m) = (parts.next(), parts.next().unwrap_or("").to_string(), parts.next().unwrap_or("-").to_string());
                        vec![(what, m, d)]
                    }
                    None => vec![],
                }
            }
        };
        *during.lock().unwrap() = None;
        {
            let ws: Vec<(String, String)> = std::mem::take(&mut *written.lock().unwrap());
            if !ws.is_empty() {
                wrote_during_a_put = true;
            }
            if let Some(n) = w.node.as_ref() {
                for (db, key) in ws {
                    let cur = n.dbs.map.read().unwrap().get(&db).and_then(|d| d.get_value(key.clone())).map(|v| (v.value, v.version));
                    if let Some(cur) = cur {
                        w.alt.insert((db, key), cur);
                    }
                }
            }
        }
        let put_failed_now = stub.failed_puts.load(Ordering::SeqCst) > failed_puts_before;
        let get_failed_now = stub.failed_gets.load(Ordering::SeqCst) > failed_gets_before;
        let logged = crate::errlog::errors() > errors_before;
        // a failure that is reported (panic, Err, error log) is what the property asks for when the fault persists
        let panicked = results.iter().any(|(w, _, _)| w == "snapshot-panic" || w == "shutdown-panic" || w == "boot-panic");
        if let Fault::PutFailsAlways { .. } | Fault::PutOfOneObjectFailsAlways { .. } = case.fault {
            if put_failed_now {
                if panicked {
                    reported = true;
                    break 'ops; // the state after a reported failure is not judged
                }
                if logged && strat != "s3" {
                    // only an error line, the snapshot command itself went through: acceptable if nothing is dropped, i.e.
                    // once the storage is healthy again the next snapshot brings everything there. Heal the stub, snapshot
                    // every database again, restart, compare with what the databases held.
                    reported = true;
                    *stub.faults.lock().unwrap() = Faults::default();
                    let mut later: Vec<(String, String, String)> = vec![];
                    for db in 0..case.base.strategies.len() {
                        for o in [Op::Snapshot { db, reclaim: false }, Op::Tick] {
                            if let Some((sig, d)) = c06::step(&mut w, &o) {
                                later.push((sig, String::new(), d));
                            }
                        }
                    }
                    if w.node.is_some() {
                        later.extend(c06::restart(&mut w, false));
                    }
                    if let Some((what, _, d)) = later.into_iter().find(|(what, _, _)| !what.contains("resurrected-key") && !what.contains("wrong-id") && !what.contains("wrong-strategy")) {
                        fail = Some((format!("C18|{}|failed-upload-only-logged-and-data-dropped", strat), format!("step {} {:?}: {} PUT(s) answered 500, the snapshot went through with an error line only; after the storage was healthy again, a further snapshot of every database and a restart: {} {}", i, op, stub.failed_puts.load(Ordering::SeqCst) - failed_puts_before, what, d)));
                    }
                    break 'ops;
                }
                if logged {
                    reported = true;
                    break 'ops;
                }
                fail = Some((format!("C18|{}|failed-upload-not-reported", strat), format!("step {} {:?}: {} PUT(s) answered 500 and the snapshot returned normally without an error log", i, op, stub.failed_puts.load(Ordering::SeqCst) - failed_puts_before)));
                break 'ops;
            }
        }
        // the `s3` strategy never retries and never looks at the result of a PUT: whatever the fault plan, a PUT that
        // failed during this step and was not reported is the violation; what follows from it (start-up panic, database
        // gone, keys object of one snapshot read against the values object of another, a garbage length that makes the
        // loader allocate petabytes) is the same root cause and is not chased
        // (a panic or an error line of the start-up that follows a shutdown snapshot in the same step is not a report of
        // the failed upload)
        let upload_panicked = results.iter().any(|(w, _, _)| w == "snapshot-panic" || w == "shutdown-panic");
        let is_restart = matches!(op, Op::RestartClean | Op::RestartKill);
        if strat == "s3" && put_failed_now {
            if !(upload_panicked || (logged && !is_restart)) {
                let sig = format!("C18|{}|failed-upload-not-reported", strat);
                if ctx.is_known(&sig) {
                    *known_hits.entry(sig).or_insert(0) += 1;
                } else {
                    fail = Some((sig, format!("step {} {:?}: {} PUT(s) failed, none was retried and the snapshot returned normally without an error log", i, op, stub.failed_puts.load(Ordering::SeqCst) - failed_puts_before)));
                }
            } else {
                reported = true;
            }
            // either way the objects of this strategy are now of mixed generations: nothing is started from them
            break 'ops;
        }
        if let Fault::GetFailsOnce { .. } | Fault::GetFailsOnceNotRetriable { .. } = case.fault {
            if get_failed_now && panicked {
                reported = true;
                break 'ops;
            }
        }
        for (what, m, d) in results {
            let fault_cls = match case.fault {
                Fault::None => "no-fault",
                Fault::PutFailsOnce { .. } | Fault::PutFailsTimes { .. } | Fault::PutFailsOnceNotRetriable { .. } if stub.failed_puts.load(Ordering::SeqCst) > 0 => "after-put-failed-once",
                Fault::GetFailsOnce { .. } | Fault::GetFailsOnceNotRetriable { .. } if stub.failed_gets.load(Ordering::SeqCst) > 0 => "after-get-failed-once",
                _ => "no-fault",
            };
            // (key-history marks are disk-format notions; the fault class matters for lost/changed data only)
            let _ = &m;
            let data_what = ["missing-key", "wrong-value", "wrong-version", "db-missing", "resurrected-key"].contains(&what.as_str());
            // the `s3` strategy has no fault handling at all (no retry, results ignored): its fault class is not part of the signature
            let sig = if data_what && strat != "s3" && what != "resurrected-key" { format!("C18|{}|{}|{}", strat, what, fault_cls) } else { format!("C18|{}|{}", strat, what) };
            if ctx.is_known(&sig) {
                *known_hits.entry(sig).or_insert(0) += 1;
                if what.ends_with("-panic") || data_what {
                    // nothing left to run / the database is no longer what the model thinks: do not chase consequences
                    break 'ops;
                }
            } else {
                fail = Some((sig, format!("step {} {:?}: {}", i, op, d)));
                break 'ops;
            }
        }
        if w.node.is_none() {
            break;
        }
    }
    let nontrivial = (w.flags.snapshots >= 2 && w.flags.restarts >= 1 && incremental_after_snapshot_with_untouched_and_removed) || stub.failed_puts.load(Ordering::SeqCst) > 0;
    drop(w);
    ctx.drop_dir(&dir);
    let mut out = Outcome::ok(nontrivial);
    out.classes.push(match case.fault {
        Fault::None => "no-fault",
        Fault::PutFailsOnce { .. } => "put-fails-once",
        Fault::PutFailsTimes { .. } => "put-fails-3-or-4-times-in-a-row",
        Fault::PutFailsOnceNotRetriable { .. } => "put-fails-once-with-409",
        Fault::PutFailsAlways { .. } => "put-fails-always",
        Fault::GetFailsOnce { .. } => "get-fails-once",
        Fault::GetFailsOnceNotRetriable { .. } => "get-fails-once-with-403",
        Fault::PutOfOneObjectFailsAlways { .. } => "one-object-unwritable",
        Fault::WriteDuringPut { .. } => "client-write-while-a-put-is-in-flight-planned",
    });
    if wrote_during_a_put {
        out.classes.push("client-write-while-a-put-was-in-flight");
    }
    *crate::s3stub::ON_PUT.lock().unwrap() = None;
    if reported {
        out.classes.push("persistent-fault-was-reported");
    }
    out.counters.push(("stub_puts", stub.puts.load(Ordering::SeqCst)));
    out.counters.push(("stub_gets", stub.gets.load(Ordering::SeqCst)));
    out.known_image_hits = known_hits;
    out.fail = fail;
    out
}

pub fn run(ctx: &Ctx, rep: &mut Report) {
    crate::interpose::virtual_clock(true);
    if strategy_name() == "disk" {
        rep.notes.push("worker without an S3 strategy: nothing to do".to_string());
        return;
    }
    // a client write while the n-th PUT is in flight, then a further snapshot and a restart: every n, a database with
    // four keys (and a second database so that the PUT can be another database's)
    {
        let mut cases = vec![];
        for n in 1..=(if ctx.quick() { 8u64 } else { 14 }) {
            for two_dbs in [false, true] {
                for reclaim in [false, true] {
                    let mut ops = vec![];
                    for k in c06::KEYS.iter() {
                        ops.push(Op::Set { db: 0, k: k.to_string(), v: "x".into() });
                    }
                    if two_dbs {
                        ops.push(Op::Set { db: 1, k: "a".into(), v: "7".into() });
                        ops.push(Op::Snapshot { db: 1, reclaim: false });
                    }
                    ops.push(Op::Snapshot { db: 0, reclaim });
                    ops.push(Op::Tick);
                    ops.push(Op::Snapshot { db: 0, reclaim: false });
                    if two_dbs {
                        ops.push(Op::Snapshot { db: 1, reclaim: false });
                    }
                    ops.push(Op::Tick);
                    ops.push(Op::RestartKill);
                    let strategies = if two_dbs { vec!["none".to_string(), "newer".to_string()] } else { vec!["none".to_string()] };
                    cases.push(Case { base: c06::Case { strategies, ops }, fault: Fault::WriteDuringPut { n }, list_page: 0 });
                }
            }
        }
        crate::report::enumerate(ctx, rep, &format!("write-while-a-put-is-in-flight-{}-p{}", strategy_name(), std::env::var("NUN_S3_NUMBER_OF_PARTITIONS").unwrap_or_default()), cases.into_iter(), |c| run_case(ctx, c));
        if !rep.failures.is_empty() {
            return;
        }
    }
    let n = ctx.amount(1200, 30_000);
    explore_with(ctx, rep, &format!("histories-{}-p{}", strategy_name(), std::env::var("NUN_S3_NUMBER_OF_PARTITIONS").unwrap_or_default()), n, 150, case_strategy(), |c| run_case(ctx, c));
}

pub fn replay(ctx: &Ctx, _engine: &str, case: &J) -> Result<Option<(String, String)>, String> {
    crate::interpose::virtual_clock(true);
    replay_guarded::<Case>(ctx, case, |c| run_case(ctx, c))
}
