//! C06 — snapshot then restart restores exactly the snapshotted state (disk strategy).
//! The same history machinery is reused by C18 (S3 strategies).
use crate::node::{is_refusal, resp_text, Node, Session};
use crate::report::{enumerate, explore, replay_guarded, Ctx, Outcome, Report};
use nundb::bo::ConsensuStrategy;
use proptest::prelude::*;
use proptest::sample::select;
use serde::{Deserialize, Serialize};
use serde_json::Value as J;
use std::collections::BTreeMap;
use std::panic::{catch_unwind, AssertUnwindSafe};

/// (one name is a proper prefix of the other: object listings by prefix, key prefixes)
/// d1 / d10: one name is a prefix of the other; the third holds the file-name suffixes of the disk format inside its name
pub const DBS: [&str; 3] = ["d1", "d10", "app.keys.x-nun.data.v2"];
pub const KEYS: &[&str] = &["a", "ab", "ké", "b"];

#[derive(Clone, Debug, Serialize, Deserialize, PartialEq)]
pub enum Op {
    Set { db: usize, k: String, v: String },
    SetSafe { db: usize, k: String, dv: i32, v: String },
    Remove { db: usize, k: String },
    Inc { db: usize, k: String, n: i32 },
    /// `resolve <id> <db> <key> <version> <value>`: the write an arbiter (or any client of the database) answers a
    /// conflict notice with; on a key without a waiting conflict it is a plain versioned write
    Resolve { db: usize, k: String, ver: i32, v: String },
    Snapshot { db: usize, reclaim: bool },
    Tick,
    RestartClean,
    RestartKill,
}

#[derive(Clone, Debug, Serialize, Deserialize)]
pub struct Case {
    pub strategies: Vec<String>, // per database: none | newer | arbiter
    pub ops: Vec<Op>,
}

/// a value written as `{c*N}` stands for the character c repeated N times (kept short in cases and replay files)
pub fn expand(v: &str) -> String {
    if let Some(body) = v.strip_prefix('{').and_then(|x| x.strip_suffix('}')) {
        if let Some((c, n)) = body.split_once('*') {
            if let Ok(n) = n.parse::<usize>() {
                return c.repeat(n);
            }
        }
    }
    v.to_string()
}

pub fn values() -> Vec<String> {
    vec!["x".to_string(), "7".to_string(), "".to_string(), "é✓ two".to_string(), "-3".to_string(), "y".repeat(300), "zé".repeat(200), "<Empty>".to_string(), "{q*8185}".to_string(), "{r*70000}".to_string()]
}

fn ks() -> impl Strategy<Value = String> {
    select(KEYS.to_vec()).prop_map(|s| s.to_string())
}

pub fn op_strategy(ndbs: usize) -> impl Strategy<Value = Op> {
    let db = 0..ndbs;
    prop_oneof![
        5 => (db.clone(), ks(), select(values())).prop_map(|(db, k, v)| Op::Set { db, k, v }),
        1 => (db.clone(), ks(), select(vec![0, 1, -1]), select(values())).prop_map(|(db, k, dv, v)| Op::SetSafe { db, k, dv, v }),
        3 => (db.clone(), ks()).prop_map(|(db, k)| Op::Remove { db, k }),
        2 => (db.clone(), ks(), select(vec![1, -1, 5])).prop_map(|(db, k, n)| Op::Inc { db, k, n }),
        1 => (db.clone(), ks(), select(vec![-2, -1, 0, 1, 7]), select(values())).prop_map(|(db, k, ver, v)| Op::Resolve { db, k, ver, v }),
        4 => (db.clone(), any::<bool>()).prop_map(|(db, reclaim)| Op::Snapshot { db, reclaim }),
        3 => Just(Op::Tick),
        1 => Just(Op::RestartClean),
        2 => Just(Op::RestartKill),
    ]
}

pub fn case_strategy(max_len: usize) -> impl Strategy<Value = Case> {
    (1..4usize).prop_flat_map(move |ndbs| {
        (prop::collection::vec(select(vec!["none", "newer", "arbiter"]), ndbs), prop::collection::vec(op_strategy(ndbs), 1..max_len))
            .prop_map(|(s, ops)| Case { strategies: s.into_iter().map(|x| x.to_string()).collect(), ops })
    })
}

/// observable content of one database: live key -> (value, version), plus id and strategy
#[derive(Clone, Debug, PartialEq)]
pub struct DbImage {
    pub keys: BTreeMap<String, (String, i32)>,
    pub id: usize,
    pub strategy: String,
}

pub fn image_of(node: &Node, db: &str) -> Option<DbImage> {
    let dbs = node.dbs.map.read().unwrap();
    let d = dbs.get(db)?;
    let mut keys = BTreeMap::new();
    for (k, v) in d.map.read().unwrap().iter() {
        // live as a client sees it: `get` answers its value. (Not the internal state flag alone: a key whose flag says
        // Deleted but which holds a real value is a live key that the next snapshot would wrongly tombstone.)
        if !(v.state == nundb::bo::ValueStatus::Deleted && v.value == "<Empty>") {
            keys.insert(k.clone(), (v.value.clone(), v.version));
        }
    }
    Some(DbImage { keys, id: d.metadata.id, strategy: d.metadata.consensus_strategy.to_string() })
}

/// per-key history marks used for signatures and the non-trivial rule
#[derive(Clone, Default, Debug)]
struct KeyHist {
    persisted: bool,               // part of an executed snapshot, live
    removed_after_persist: bool,   // removed after having been persisted (tombstone on disk / in memory)
    inc_after_persist: bool,       // incremented after having been persisted
    tombstone_reclaimed: bool,     // a reclaiming snapshot ran while the key was a tombstone
    rewritten_after_tombstone: bool,
}

pub struct World {
    /// (database name, key) -> another (value, version) a restart may bring back besides the one of the last executed
    /// snapshot: a write accepted WHILE that snapshot was running may or may not be part of it
    pub alt: BTreeMap<(String, String), (String, i32)>,
    pub node: Option<Node>,
    pub dir: String,
    pub admin: Vec<Session>, // one admin session per database
    pub strategies: Vec<String>,
    /// image of each database at its last executed snapshot
    pub snap: BTreeMap<String, DbImage>,
    pub queued: Vec<(usize, bool)>,
    hist: BTreeMap<(usize, String), KeyHist>,
    pub flags: Flags,
}

#[derive(Default, Clone)]
pub struct Flags {
    pub snapshots: u32,
    pub restarts: u32,
    pub nontrivial: bool,
    pub changed_persisted_between_snapshots: bool,
}

fn token(db: usize) -> String {
    format!("tok{}", db)
}

impl World {
    pub fn new(dir: &str, strategies: &[String]) -> World {
        let node = Node::boot_single(dir);
        let mut w = World { alt: BTreeMap::new(), node: Some(node), dir: dir.to_string(), admin: vec![], strategies: strategies.to_vec(), snap: BTreeMap::new(), queued: vec![], hist: BTreeMap::new(), flags: Flags::default() };
        w.connect(true);
        w
    }

    /// (re)creates missing databases and opens one admin session per database
    fn connect(&mut self, _first: bool) {
        let node = self.node.as_mut().unwrap();
        self.admin.clear();
        for (i, s) in self.strategies.iter().enumerate() {
            let mut a = Session::new();
            a.auth(node);
            if !node.dbs.has_db(DBS[i]) {
                a.send(node, &format!("create-db {} {} {}", DBS[i], token(i), s));
            }
            a.send(node, &format!("use-db {} {}", DBS[i], token(i)));
            self.admin.push(a);
        }
        node.pump();
    }

    fn h(&mut self, db: usize, k: &str) -> &mut KeyHist {
        self.hist.entry((db, k.to_string())).or_default()
    }
}

fn fail(what: &str, marks: &str, detail: String) -> Option<(String, String)> {
    Some((format!("C06|{}|{}", what, marks), detail))
}

fn marks(h: Option<&KeyHist>) -> String {
    match h {
        None => "-".to_string(),
        Some(h) => {
            let mut v = vec![];
            if h.inc_after_persist {
                v.push("incremented-after-persist");
            }
            if h.tombstone_reclaimed {
                v.push("tombstone-through-reclaim");
            }
            if h.removed_after_persist {
                v.push("removed-after-persist");
            }
            if h.rewritten_after_tombstone {
                v.push("rewritten-after-remove");
            }
            if v.is_empty() {
                "plain".to_string()
            } else {
                v.join("+")
            }
        }
    }
}

/// executes the queued snapshots (tick or clean shutdown) and records the images
/// the observable state of every queued database, taken BEFORE the snapshot runs (it is what is being stored)
fn pre_images(w: &World) -> BTreeMap<String, DbImage> {
    let node = w.node.as_ref().unwrap();
    let mut out = BTreeMap::new();
    for (db, _) in w.queued.iter() {
        if let Some(img) = image_of(node, DBS[*db]) {
            out.insert(DBS[*db].to_string(), img);
        }
    }
    out
}

fn executed(w: &mut World, pre: BTreeMap<String, DbImage>) {
    let queued: Vec<(usize, bool)> = std::mem::take(&mut w.queued);
    // the implementation dedups consecutive equal requests and pops from the back
    let mut done = vec![];
    for (db, reclaim) in queued.iter() {
        if let Some(img) = pre.get(DBS[*db]) {
            w.alt.retain(|(d, _), _| d != DBS[*db]);
            w.snap.insert(DBS[*db].to_string(), img.clone());
            done.push((*db, *reclaim));
        }
    }
    for (db, reclaim) in done {
        w.flags.snapshots += 1;
        let keys: Vec<(usize, String)> = w.hist.keys().filter(|(d, _)| *d == db).cloned().collect();
        for key in keys {
            let live = w.snap.get(DBS[db]).map(|i| i.keys.contains_key(&key.1)).unwrap_or(false);
            let h = w.hist.get_mut(&key).unwrap();
            if live {
                h.persisted = true;
            } else if h.removed_after_persist && reclaim {
                h.tombstone_reclaimed = true;
            }
        }
    }
}

pub fn step(w: &mut World, op: &Op) -> Option<(String, String)> {
    match op {
        Op::Set { db, k, v } => {
            if *db >= w.strategies.len() {
                return None;
            }
            let node = w.node.as_mut().unwrap();
            let (r, _) = w.admin[*db].send(node, &format!("set {} {}", k, expand(v)));
            node.pump();
            if !is_refusal(&r) {
                let h = w.h(*db, k);
                if h.removed_after_persist {
                    h.rewritten_after_tombstone = true;
                }
                if h.persisted {
                    w.flags.changed_persisted_between_snapshots = true;
                }
            }
        }
        Op::SetSafe { db, k, dv, v } => {
            if *db >= w.strategies.len() {
                return None;
            }
            let node = w.node.as_mut().unwrap();
            let cur = node.dbs.map.read().unwrap().get(DBS[*db]).and_then(|d| d.get_value(k.clone())).map(|x| x.version).unwrap_or(0);
            let ver = (cur + dv).max(0);
            let (r, _) = w.admin[*db].send(node, &format!("set-safe {} {} {}", k, ver, expand(v)));
            node.pump();
            if !is_refusal(&r) {
                let h = w.h(*db, k);
                if h.removed_after_persist {
                    h.rewritten_after_tombstone = true;
                }
            }
        }
        Op::Resolve { db, k, ver, v } => {
            if *db >= w.strategies.len() {
                return None;
            }
            let node = w.node.as_mut().unwrap();
            let (r, _) = w.admin[*db].send(node, &format!("resolve 7 {} {} {} {}", DBS[*db], k, ver, expand(v)));
            node.pump();
            if !is_refusal(&r) {
                let h = w.h(*db, k);
                if h.removed_after_persist {
                    h.rewritten_after_tombstone = true;
                }
            }
        }
        Op::Remove { db, k } => {
            if *db >= w.strategies.len() {
                return None;
            }
            let node = w.node.as_mut().unwrap();
            let (r, _) = w.admin[*db].send(node, &format!("remove {}", k));
            node.pump();
            if is_refusal(&r) {
                return fail("remove-refused", "-", resp_text(&r));
            }
            let h = w.h(*db, k);
            if h.persisted {
                h.removed_after_persist = true;
                h.persisted = false;
                w.flags.changed_persisted_between_snapshots = true;
            }
        }
        Op::Inc { db, k, n } => {
            if *db >= w.strategies.len() {
                return None;
            }
            let node = w.node.as_mut().unwrap();
            let (r, _) = w.admin[*db].send(node, &format!("increment {} {}", k, n));
            node.pump();
            if !is_refusal(&r) {
                let h = w.h(*db, k);
                let touched = h.persisted || h.removed_after_persist;
                if touched {
                    h.inc_after_persist = true;
                }
                if h.removed_after_persist {
                    h.rewritten_after_tombstone = true;
                }
                if touched {
                    w.flags.changed_persisted_between_snapshots = true;
                }
            }
        }
        Op::Snapshot { db, reclaim } => {
            if *db >= w.strategies.len() {
                return None;
            }
            let node = w.node.as_mut().unwrap();
            let (r, _) = w.admin[*db].send(node, &format!("snapshot {}", reclaim));
            node.pump();
            if is_refusal(&r) {
                return fail("snapshot-refused", "-", resp_text(&r));
            }
            if w.queued.last() != Some(&(*db, *reclaim)) {
                w.queued.push((*db, *reclaim));
            }
        }
        Op::Tick => {
            if w.queued.is_empty() {
                return None;
            }
            let pre = pre_images(w);
            let node = w.node.as_ref().unwrap();
            let r = catch_unwind(AssertUnwindSafe(|| node.snapshot_tick()));
            if let Err(e) = r {
                return fail("snapshot-panic", "-", format!("snapshot tick panicked: {} at {}", crate::node::panic_text(e), crate::node::last_panic_loc()));
            }
            executed(w, pre);
        }
        Op::RestartClean | Op::RestartKill => {
            let all = restart(w, *op == Op::RestartClean);
            if let Some((what, m, detail)) = all.into_iter().next() {
                return fail(&what, &m, detail);
            }
        }
    }
    None
}

/// Restarts the node (clean = safe_shutdown first) and compares every database with the image of its
/// last executed snapshot. Returns ALL mismatches as (what, key-history marks, detail); empty = fine.
pub fn restart(w: &mut World, clean: bool) -> Vec<(String, String, String)> {
    restart_guarded(w, clean, &|| true)
}

/// `restart`, with a say of the caller between the shutdown and the start (C18: nothing is started from S3 objects that
/// an ignored failed upload left in mixed generations)
pub fn restart_guarded(w: &mut World, clean: bool, may_boot: &dyn Fn() -> bool) -> Vec<(String, String, String)> {
    let mut out: Vec<(String, String, String)> = vec![];
    if clean {
        let pre = pre_images(w);
        let node = w.node.as_ref().unwrap();
        let r = catch_unwind(AssertUnwindSafe(|| node.shutdown()));
        if let Err(e) = r {
            out.push(("shutdown-panic".into(), "-".into(), format!("safe_shutdown panicked: {} at {}", crate::node::panic_text(e), crate::node::last_panic_loc())));
            return out;
        }
        executed(w, pre);
    } else {
        w.queued.clear();
    }
    w.admin.clear();
    w.node = None; // drop: nothing is buffered in user space between commands
    if !may_boot() {
        out.push(("not-started".into(), "-".into(), "the caller did not want the node started".into()));
        return out;
    }
    let dir = w.dir.clone();
    let booted = match crate::node::probe_boot(&dir) {
        Ok(()) => catch_unwind(AssertUnwindSafe(|| Node::boot_single(&dir))),
        Err(e) => Err(Box::new(e) as Box<dyn std::any::Any + Send>),
    };
    let node = match booted {
        Ok(n) => n,
        Err(e) => {
            // which key history makes the image unreadable? report the union of marks
            let mut all: Vec<String> = w.hist.values().map(|h| marks(Some(h))).filter(|m| m != "plain").collect();
            all.sort();
            all.dedup();
            out.push(("boot-panic".into(), all.join(","), format!("restart panicked: {} at {}", crate::node::panic_text(e), crate::node::last_panic_loc())));
            return out;
        }
    };
    w.flags.restarts += 1;
    if w.flags.snapshots >= 2 && w.flags.changed_persisted_between_snapshots {
        w.flags.nontrivial = true;
    }
    // compare every database with its last executed snapshot
    for (i, _s) in w.strategies.iter().enumerate() {
        let name = DBS[i];
        let got = image_of(&node, name);
        if std::env::var("NV_DEBUG").is_ok() {
            eprintln!("[c06::restart] {} want={:?} got={:?}", name, w.snap.get(name), got);
        }
        match (w.snap.get(name), got) {
            (None, None) => {}
            (None, Some(_)) => out.push(("db-never-snapshotted-present".into(), "-".into(), format!("database {} was never snapshotted but exists after restart", name))),
            (Some(_), None) => out.push(("db-missing".into(), "-".into(), format!("database {} had a completed snapshot but is missing after restart", name))),
            (Some(want), Some(got)) => {
                if want.id != got.id {
                    out.push(("wrong-id".into(), "-".into(), format!("database {}: id {} before, {} after", name, want.id, got.id)));
                }
                if want.strategy != got.strategy {
                    out.push(("wrong-strategy".into(), "-".into(), format!("database {}: strategy {} before, {} after", name, want.strategy, got.strategy)));
                }
                for (k, (v, ver)) in want.keys.iter() {
                    let m = marks(w.hist.get(&(i, k.clone())));
                    match got.keys.get(k) {
                        None => out.push(("missing-key".into(), m, format!("database {}: key {:?} ({:?}@{}) lost", name, k, short(v), ver))),
                        Some((gv, gver)) => {
                            if w.alt.get(&(name.to_string(), k.clone())) == Some(&(gv.clone(), *gver)) {
                                // the write accepted while the snapshot was running is part of it
                            } else if gv != v {
                                out.push(("wrong-value".into(), m, format!("database {}: key {:?} was {:?}@{}, restored {:?}@{}", name, k, short(v), ver, short(gv), gver)));
                            } else if gver != ver {
                                out.push(("wrong-version".into(), m, format!("database {}: key {:?} version {} before, {} after", name, k, ver, gver)));
                            }
                        }
                    }
                }
                for (k, (gv, gver)) in got.keys.iter() {
                    if !want.keys.contains_key(k) {
                        let m = marks(w.hist.get(&(i, k.clone())));
                        out.push(("resurrected-key".into(), m, format!("database {}: key {:?} ({:?}@{}) was not in the snapshot but is back", name, k, short(gv), gver)));
                    }
                }
            }
        }
    }
    w.node = Some(node);
    // databases that vanished are re-created, the per-key marks of vanished databases reset
    let present: Vec<bool> = (0..w.strategies.len()).map(|i| w.node.as_ref().unwrap().dbs.has_db(DBS[i])).collect();
    for (i, p) in present.iter().enumerate() {
        if !*p {
            w.hist.retain(|(d, _), _| *d != i);
        }
    }
    // the model continues from what was actually loaded (so that one mismatch is reported once)
    for (i, _s) in w.strategies.clone().iter().enumerate() {
        if let Some(img) = image_of(w.node.as_ref().unwrap(), DBS[i]) {
            if w.snap.contains_key(DBS[i]) {
                w.snap.insert(DBS[i].to_string(), img);
            }
        }
    }
    // in-memory marks that no longer hold after a reload: everything loaded is persisted and live
    for ((d, k), h) in w.hist.iter_mut() {
        let live = w.snap.get(DBS[*d]).map(|img| img.keys.contains_key(k)).unwrap_or(false);
        *h = KeyHist { persisted: live, ..Default::default() };
    }
    w.connect(false);
    out
}

fn short(s: &str) -> String {
    if s.len() > 24 {
        format!("{}…({}B)", s.chars().take(12).collect::<String>(), s.len())
    } else {
        s.to_string()
    }
}

pub fn run_case(ctx: &Ctx, case: &Case) -> Outcome {
    let dir = ctx.fresh_dir();
    let mut w = World::new(&dir, &case.strategies);
    let mut failure = None;
    for (i, op) in case.ops.iter().enumerate() {
        if let Some((sig, d)) = step(&mut w, op) {
            failure = Some((sig, format!("step {} ({}): {}", i, op_name(op), d)));
            break;
        }
    }
    if failure.is_none() {
        // every history ends with a kill-restart so that the last snapshots are checked too
        if let Some((sig, d)) = step(&mut w, &Op::RestartKill) {
            failure = Some((sig, format!("final restart: {}", d)));
        }
    }
    let flags = w.flags.clone();
    drop(w);
    ctx.drop_dir(&dir);
    let mut out = Outcome::ok(flags.nontrivial);
    if flags.nontrivial {
        out.classes.push("two-snapshots-with-change-of-persisted-key-then-restart");
    }
    if flags.snapshots > 0 {
        out.classes.push("has-executed-snapshot");
    }
    out.counters.push(("snapshots_executed", flags.snapshots as u64));
    out.counters.push(("restarts", flags.restarts as u64 + 1));
    out.fail = failure;
    out
}

fn op_name(op: &Op) -> String {
    match op {
        Op::Set { db, k, v } => format!("set {}:{} {:?}", db, k, short(v)),
        Op::SetSafe { db, k, dv, v } => format!("set-safe {}:{} cur{:+} {:?}", db, k, dv, short(v)),
        o => format!("{:?}", o),
    }
}

fn small_ops() -> Vec<Op> {
    let mut v = vec![];
    for k in ["a", "ab"] {
        v.push(Op::Set { db: 0, k: k.into(), v: "x".into() });
        v.push(Op::Remove { db: 0, k: k.into() });
    }
    v.push(Op::Set { db: 0, k: "a".into(), v: "7".into() });
    v.push(Op::Inc { db: 0, k: "a".into(), n: 1 });
    v.push(Op::Snapshot { db: 0, reclaim: false });
    v.push(Op::Snapshot { db: 0, reclaim: true });
    v.push(Op::Tick);
    v.push(Op::RestartKill);
    v
}

pub fn sequences(alpha: &[Op], len: usize) -> impl Iterator<Item = Case> + '_ {
    let n = alpha.len();
    let total = n.pow(len as u32);
    (0..total).map(move |mut i| {
        let mut ops = Vec::with_capacity(len);
        for _ in 0..len {
            ops.push(alpha[i % n].clone());
            i /= n;
        }
        Case { strategies: vec!["none".to_string()], ops }
    })
}

/// every life cycle of ONE key: sequences over {set 7, set x, remove, increment, incremental snapshot executed,
/// reclaiming snapshot executed} (a snapshot with its tick counts as one letter), each followed by the kill-restart
pub fn lifecycles(len: usize) -> impl Iterator<Item = Case> {
    let letters: Vec<Vec<Op>> = vec![
        vec![Op::Set { db: 0, k: "a".into(), v: "7".into() }],
        vec![Op::Set { db: 0, k: "a".into(), v: "x".into() }],
        vec![Op::Remove { db: 0, k: "a".into() }],
        vec![Op::Inc { db: 0, k: "a".into(), n: 1 }],
        vec![Op::Snapshot { db: 0, reclaim: false }, Op::Tick],
        vec![Op::Snapshot { db: 0, reclaim: true }, Op::Tick],
    ];
    let n = letters.len();
    let total = n.pow(len as u32);
    (0..total).map(move |mut i| {
        let mut ops = vec![];
        for _ in 0..len {
            ops.extend(letters[i % n].iter().cloned());
            i /= n;
        }
        Case { strategies: vec!["none".to_string()], ops }
    })
}

pub fn run(ctx: &Ctx, rep: &mut Report) {
    crate::interpose::virtual_clock(true);
    let max_cycle = ctx.amount(6, 8) as usize;
    for len in 2..=max_cycle {
        if !rep.failures.is_empty() {
            break;
        }
        enumerate(ctx, rep, &format!("one-key-life-cycles-len{}", len), lifecycles(len), |c| run_case(ctx, c));
    }
    if !rep.failures.is_empty() {
        return;
    }
    let n = ctx.amount(12_000, 300_000);
    explore(ctx, rep, "histories", n, case_strategy(40), |c| run_case(ctx, c));
    let alpha = small_ops();
    let max_len = ctx.amount(4, 6) as usize;
    for len in 3..=max_len {
        if !rep.failures.is_empty() {
            break;
        }
        enumerate(ctx, rep, &format!("exhaustive-len{}", len), sequences(&alpha, len), |c| run_case(ctx, c));
    }
    if rep.failures.is_empty() {
        // a snapshot that runs while clients write (C02's concurrent engine under the baton scheduler: a stored tombstone
        // and rewritten keys meet the snapshot task), then a snapshot that completes alone, then a restart
        let n = ctx.amount(6000, 150_000);
        explore(ctx, rep, "snapshot-among-writers-then-restart", n, crate::props::c02::ccase_strategy_for_c06(), |c| crate::props::c02::conc_guard_for_c06(ctx, c));
    }
}

pub fn replay(ctx: &Ctx, engine: &str, case: &J) -> Result<Option<(String, String)>, String> {
    crate::interpose::virtual_clock(true);
    if engine == "snapshot-among-writers-then-restart" {
        return replay_guarded::<crate::props::c02::CCase>(ctx, case, |c| crate::props::c02::conc_guard_for_c06(ctx, c));
    }
    replay_guarded::<Case>(ctx, case, |c| run_case(ctx, c))
}

#[allow(dead_code)]
pub fn strategy_of(s: &str) -> ConsensuStrategy {
    ConsensuStrategy::from(s.to_string())
}
