//! C17 — `$connections` equals the number of open sessions that selected the database.
use crate::node::{is_refusal, resp_text, Node, Session};
use crate::report::{enumerate, explore, replay_guarded, Ctx, Outcome, Report};
use proptest::prelude::*;
use serde::{Deserialize, Serialize};
use serde_json::Value as J;

const DBS: [&str; 2] = ["d0", "d1"];

#[derive(Clone, Debug, Serialize, Deserialize, PartialEq)]
pub enum Ev {
    /// select with the right database token
    UseDb { s: usize, db: usize },
    /// select as user bob
    UseDbUser { s: usize, db: usize },
    UseDbWrong { s: usize, db: usize },
    /// the three-argument user form with a wrong user token (fails)
    UseDbUserWrong { s: usize, db: usize },
    /// a refused command (secure key / no selection)
    Refused { s: usize },
    /// an ordinary accepted command
    Work { s: usize },
    Disconnect { s: usize },
    /// the session writes the counter key itself (set / set-safe at the version ceiling / remove / increment): the key
    /// belongs to the node, it keeps saying how many sessions are open
    WriteCounter { s: usize, how: u8 },
    /// every database is snapshotted (with whatever sessions are connected at that moment), the process ends and a new
    /// one starts from the files: nobody is connected to it, new watchers join, the counting starts again
    SnapshotRestart,
}

#[derive(Clone, Debug, Serialize, Deserialize)]
pub struct Case {
    pub evs: Vec<Ev>,
}

fn ev_strategy() -> impl Strategy<Value = Ev> {
    let s = 0..3usize;
    let db = 0..2usize;
    prop_oneof![
        5 => (s.clone(), db.clone()).prop_map(|(s, db)| Ev::UseDb { s, db }),
        2 => (s.clone(), db.clone()).prop_map(|(s, db)| Ev::UseDbUser { s, db }),
        2 => (s.clone(), db.clone()).prop_map(|(s, db)| Ev::UseDbWrong { s, db }),
        2 => (s.clone(), db.clone()).prop_map(|(s, db)| Ev::UseDbUserWrong { s, db }),
        1 => Just(Ev::SnapshotRestart),
        1 => s.clone().prop_map(|s| Ev::Refused { s }),
        1 => s.clone().prop_map(|s| Ev::Work { s }),
        4 => s.clone().prop_map(|s| Ev::Disconnect { s }),
        1 => (s.clone(), 0..4u8).prop_map(|(s, how)| Ev::WriteCounter { s, how }),
    ]
}

fn count_of(node: &Node, db: &str) -> String {
    node.dump().get(db).and_then(|m| m.get("$connections")).map(|v| v.0.clone()).unwrap_or_else(|| "<none>".to_string())
}

pub fn run_case(ctx: &Ctx, case: &Case) -> Outcome {
    let dir = ctx.fresh_dir();
    let mut node = Node::boot_single(&dir);
    let mut admin = Session::new();
    admin.auth(&node);
    for d in DBS {
        admin.send(&node, &format!("create-db {} tok-{}", d, d));
        admin.send(&node, &format!("use-db {} tok-{}", d, d));
        admin.send(&node, "create-user bob bobtok");
        admin.send(&node, "set-permissions bob rw *");
    }
    let _ = admin.disconnect(&node);
    // one watcher per database (each is itself one open session of its database)
    let mut watchers: Vec<Session> = vec![];
    for d in DBS {
        let mut w = Session::new();
        w.send(&node, &format!("use-db {} tok-{}", d, d));
        w.send(&node, "watch $connections");
        w.drain();
        watchers.push(w);
    }
    node.pump();
    let mut sessions: Vec<Session> = (0..3).map(|_| Session::new()).collect();
    let mut sel: Vec<Option<usize>> = vec![None; 3];
    let mut selections_of: Vec<u32> = vec![0; 3];
    let mut want_seq: Vec<Vec<String>> = vec![vec![], vec![]];
    let mut got_seq: Vec<Vec<String>> = vec![vec![], vec![]];
    let mut fail: Option<(String, String)> = None;
    let mut nontrivial = false;
    let mut restarted = false;
    let count = |sel: &Vec<Option<usize>>, db: usize| 1 + sel.iter().filter(|x| **x == Some(db)).count();
    let mut evs: Vec<Ev> = case.evs.clone();
    // the burst goes away at the end
    for s in 0..3 {
        evs.push(Ev::Disconnect { s });
    }
    for (i, ev) in evs.iter().enumerate() {
        let before: Vec<usize> = (0..2).map(|d| count(&sel, d)).collect();
        let kind;
        match ev {
            Ev::UseDb { s, db } | Ev::UseDbUser { s, db } => {
                let line = if let Ev::UseDb { .. } = ev { format!("use-db {} tok-{}", DBS[*db], DBS[*db]) } else { format!("use-db {} bob bobtok", DBS[*db]) };
                kind = if sel[*s] == Some(*db) { "reselect-same" } else if sel[*s].is_some() { "select-other" } else { "select-first" };
                let (r, _) = sessions[*s].send(&node, &line);
                if is_refusal(&r) {
                    fail = Some(("C17|use-db-refused".into(), format!("step {} {:?}: {}", i, ev, resp_text(&r))));
                    break;
                }
                sel[*s] = Some(*db);
                selections_of[*s] += 1;
                if selections_of[*s] >= 2 {
                    nontrivial = true;
                }
            }
            Ev::UseDbWrong { s, db } | Ev::UseDbUserWrong { s, db } => {
                kind = if let Ev::UseDbWrong { .. } = ev { "failed-select" } else { "failed-user-select" };
                let line = if let Ev::UseDbWrong { .. } = ev { format!("use-db {} nope", DBS[*db]) } else { format!("use-db {} bob not-bobs-token", DBS[*db]) };
                let (r, _) = sessions[*s].send(&node, &line);
                if !is_refusal(&r) {
                    fail = Some(("C17|wrong-token-accepted".into(), format!("step {} {:?}", i, ev)));
                    break;
                }
            }
            Ev::Refused { s } => {
                kind = "refused-command";
                sessions[*s].send(&node, "get $$token");
            }
            Ev::Work { s } => {
                kind = "work";
                sessions[*s].send(&node, "set k v");
            }
            Ev::WriteCounter { s, how } => {
                kind = "client-writes-the-counter";
                let line = match how % 4 {
                    0 => "set $connections 99",
                    1 => "set-safe $connections 2147483646 2",
                    2 => "remove $connections",
                    _ => "increment $connections 5",
                };
                sessions[*s].send(&node, line);
                if sel[*s].is_some() {
                    nontrivial = true;
                }
            }
            Ev::SnapshotRestart => {
                kind = "after-snapshot-and-restart";
                let mut a = Session::new();
                a.auth(&node);
                a.send(&node, &format!("snapshot false {}|{}", DBS[0], DBS[1]));
                node.pump();
                node.snapshot_tick();
                // the process ends: its sessions end with it (what the old watchers were told is judged so far)
                for d in 0..2 {
                    for m in watchers[d].drain() {
                        if let Some(v) = m.strip_prefix("changed $connections ") {
                            got_seq[d].push(v.trim().to_string());
                        }
                    }
                    if got_seq[d] != want_seq[d] {
                        fail = Some(("C17|watcher-told-a-count-that-never-was".into(), format!("database {} before the restart: count went through {:?} but the watcher was notified {:?}", DBS[d], want_seq[d], got_seq[d])));
                    }
                    want_seq[d].clear();
                    got_seq[d].clear();
                }
                drop(a);
                watchers.clear();
                sessions = (0..3).map(|_| Session::new()).collect();
                sel = vec![None; 3];
                selections_of = vec![0; 3];
                drop(node);
                node = Node::boot_single(&dir);
                for d in DBS {
                    let mut w = Session::new();
                    w.send(&node, &format!("use-db {} tok-{}", d, d));
                    w.send(&node, "watch $connections");
                    w.drain();
                    watchers.push(w);
                }
                restarted = true;
                if fail.is_some() {
                    break;
                }
            }
            Ev::Disconnect { s } => {
                kind = if sel[*s].is_some() { "disconnect-selected" } else { "disconnect-unselected" };
                let mut old = std::mem::replace(&mut sessions[*s], Session::new());
                if let Err(e) = old.disconnect(&node) {
                    fail = Some((format!("C17|disconnect-panicked|{}", kind), format!("step {} {:?}: disconnect panicked: {}", i, ev, e)));
                    break;
                }
                sel[*s] = None;
                selections_of[*s] = 0;
            }
        }
        node.pump();
        for d in 0..2 {
            let want = count(&sel, d);
            let got = count_of(&node, DBS[d]);
            if got != want.to_string() {
                fail = Some((format!("C17|wrong-count|{}", kind), format!("step {} {:?}: $connections of {} is {:?}, open sessions that selected it: {} (watcher included)", i, ev, DBS[d], got, want)));
                break;
            }
            // (after a restart the new watcher subscribes once it is counted itself: it is not told its own arrival)
            if want != before[d] && !matches!(ev, Ev::SnapshotRestart) {
                want_seq[d].push(want.to_string());
            }
            for m in watchers[d].drain() {
                if let Some(v) = m.strip_prefix("changed $connections ") {
                    got_seq[d].push(v.trim().to_string());
                }
            }
        }
        if fail.is_some() {
            break;
        }
    }
    if fail.is_none() {
        // watchers saw each change (extra transient values are tolerated: completeness only)
        for d in 0..2 {
            let mut it = got_seq[d].iter();
            for w in want_seq[d].iter() {
                if !it.any(|g| g == w) {
                    fail = Some(("C17|watcher-missed-change".into(), format!("database {}: count went through {:?} but the watcher was notified {:?}", DBS[d], want_seq[d], got_seq[d])));
                    break;
                }
            }
            // ... and only changes: a value the watcher is told must be one the count went through, in that order
            // ("$connections always equals the number of open sessions": a value pushed to a watcher that the count never
            // had is the key holding a wrong number for a moment)
            if fail.is_none() && got_seq[d] != want_seq[d] {
                fail = Some(("C17|watcher-told-a-count-that-never-was".into(), format!("database {}: count went through {:?} but the watcher was notified {:?}", DBS[d], want_seq[d], got_seq[d])));
            }
            if got_seq[d].last().map(|s| s.as_str()).unwrap_or("1") != "1" && fail.is_none() {
                fail = Some(("C17|watcher-last-value".into(), format!("database {}: after the burst the last notified value is {:?}", DBS[d], got_seq[d].last())));
            }
        }
    }
    drop(node);
    ctx.drop_dir(&dir);
    let mut out = Outcome::ok(nontrivial);
    if nontrivial {
        out.classes.push("session-selects-twice-before-leaving");
    }
    if restarted {
        out.classes.push("snapshot-with-sessions-connected-then-restart");
    }
    out.fail = fail;
    out
}

fn alphabet() -> Vec<Ev> {
    let mut v = vec![];
    for s in 0..2 {
        for db in 0..2 {
            v.push(Ev::UseDb { s, db });
        }
        v.push(Ev::UseDbWrong { s, db: 0 });
        v.push(Ev::UseDbUserWrong { s, db: 1 });
        v.push(Ev::Disconnect { s });
    }
    v.push(Ev::UseDbUser { s: 0, db: 0 });
    v.push(Ev::Refused { s: 0 });
    v
}

fn sequences(alpha: &[Ev], len: usize) -> impl Iterator<Item = Case> + '_ {
    let n = alpha.len();
    let total = n.pow(len as u32);
    (0..total).map(move |mut i| {
        let mut evs = Vec::with_capacity(len);
        for _ in 0..len {
            evs.push(alpha[i % n].clone());
            i /= n;
        }
        Case { evs }
    })
}

// ------------------------------------------------------------------ the transports' own disconnect paths
// Real TCP and WebSocket connections to servers started in process: a burst of sessions selects the database and goes
// away in different ways (clean close, close with unread replies = reset, a line that is not UTF-8 before the close, a
// WebSocket session); when the burst is gone `$connections` must be back at what it was (polled up to 30 s: the servers
// notice a closed connection on their own threads).

#[derive(Clone, Debug, Serialize, Deserialize, PartialEq)]
pub enum Bye {
    TcpClean,
    TcpResetWithUnreadReplies,
    /// a WebSocket session that says good-bye with a close code the server's library refuses (1004, 999, 5000, 1016),
    /// then closes the socket
    WebSocketOddCloseCode { code: u16 },
    /// a text frame that is no UTF-8 (the server starts the closing handshake), then a close frame, then the socket closes
    WebSocketBadTextThenClose,
    TcpAfterANonUtf8Line,
    TcpHalfLineThenClose,
    /// the client asks for far more than the socket buffers hold (600 x a 64 kB value), reads nothing for a while, closes
    TcpSlowReader,
    /// five HTTP requests in a row (the server has four workers, so one of them serves its second session of this
    /// database): each request is a session of its own, sees itself counted and is gone when the request ends
    HttpRequests,
    WebSocket,
}

#[derive(Clone, Debug, Serialize, Deserialize)]
pub struct TCase {
    pub byes: Vec<Bye>,
}

fn tcase_strategy() -> impl Strategy<Value = TCase> {
    let bye = prop_oneof![2 => Just(Bye::TcpClean), 2 => Just(Bye::TcpResetWithUnreadReplies), 2 => Just(Bye::TcpAfterANonUtf8Line), 1 => Just(Bye::TcpHalfLineThenClose), 1 => Just(Bye::TcpSlowReader), 2 => Just(Bye::HttpRequests), 2 => Just(Bye::WebSocket), 2 => proptest::sample::select(vec![1004u16, 999, 5000, 1016, 1000]).prop_map(|code| Bye::WebSocketOddCloseCode { code }), 1 => Just(Bye::WebSocketBadTextThenClose)];
    prop::collection::vec(bye, 1..5).prop_map(|byes| TCase { byes })
}

pub fn run_transport_case(srv: &crate::props::c10::TServer, case: &TCase) -> Outcome {
    use std::io::{Read, Write};
    // a database of its own for every evaluation (a count leaked by one case must not decide the next)
    static NEXT: std::sync::atomic::AtomicU64 = std::sync::atomic::AtomicU64::new(0);
    let db = format!("t{}", NEXT.fetch_add(1, std::sync::atomic::Ordering::SeqCst));
    {
        let mut admin = Session::new();
        admin.auth(&srv.node);
        admin.send(&srv.node, &format!("create-db {} ptok", db));
        let _ = admin.disconnect(&srv.node);
    }
    let dbc = db.clone();
    let count = move |srv: &crate::props::c10::TServer| srv.node.dump_db(&dbc).and_then(|m| m.get("$connections").map(|v| v.0.clone())).unwrap_or_else(|| "0".to_string());
    let mut out = Outcome::ok(true);
    out.classes.push("transport-disconnect-paths");
    // settle first (an earlier case's sessions may still be on their way out)
    let settle = |want: &str| -> bool {
        for _ in 0..6000 {
            if count(srv) == want {
                return true;
            }
            crate::transport::real_sleep(std::time::Duration::from_millis(5));
        }
        false
    };
    if !settle("0") {
        // not this case's doing: reported by the case that caused it
        out.nontrivial = false;
        return out;
    }
    for (i, bye) in case.byes.iter().enumerate() {
        match bye {
            Bye::HttpRequests => {
                // an observer keeps the database selected all along (in process): the count moves between 1 and 2
                let mut observer = Session::new();
                observer.send(&srv.node, &format!("use-db {} ptok", db));
                for r in 0..5 {
                    match crate::transport::http_post(srv.http, &format!("use-db {} ptok;get $connections", db)) {
                        Ok((_st, body)) => {
                            // the session of the request is the only one that has the database selected
                            if body.trim_end() != "empty;value 2" {
                                out.fail = Some(("C17|transport|http-session-miscounted".into(), format!("HTTP request {} of 5 in a row (`use-db {} ptok;get $connections`) answered {:?}: the observer and the request's own session have that database selected, it must read 2", r, db, body)));
                                let _ = observer.disconnect(&srv.node);
                                return out;
                            }
                        }
                        Err(e) => {
                            out.fail = Some(("C17|transport|http-request-failed".into(), format!("HTTP request {} of 5 in a row (`use-db {} ptok;get $connections`) failed: {}", r, db, e)));
                            let _ = observer.disconnect(&srv.node);
                            return out;
                        }
                    }
                    if !settle("1") {
                        out.fail = Some(("C17|transport|connection-not-released|HttpRequests".into(), format!("HTTP request {} of 5 ended and 30 s later $connections of the database is {:?}, one session (the observer) has it selected", r, count(srv))));
                        let _ = observer.disconnect(&srv.node);
                        return out;
                    }
                }
                let _ = observer.disconnect(&srv.node);
            }
            Bye::WebSocketOddCloseCode { .. } | Bye::WebSocketBadTextThenClose => {
                let mut s = match crate::transport::raw_ws_connect(srv.ws) {
                    Ok(s) => s,
                    Err(e) => {
                        eprintln!("C17 transport engine: raw websocket: {}", e);
                        out.nontrivial = false;
                        return out;
                    }
                };
                let _ = s.write_all(&crate::transport::raw_ws_frame(1, format!("use-db {} ptok", db).as_bytes()));
                let mut counted = false;
                for _ in 0..6000 {
                    if count(srv) != "0" {
                        counted = true;
                        break;
                    }
                    crate::transport::real_sleep(std::time::Duration::from_millis(5));
                }
                if !counted {
                    out.fail = Some(("C17|transport|session-not-counted".into(), format!("session {} ({:?}): use-db over WebSocket did not raise $connections within 30 s", i, bye)));
                    return out;
                }
                match bye {
                    Bye::WebSocketOddCloseCode { code } => {
                        let _ = s.write_all(&crate::transport::raw_ws_frame(8, &code.to_be_bytes()));
                    }
                    _ => {
                        let _ = s.write_all(&crate::transport::raw_ws_frame(1, b"get \xff\xfe"));
                        crate::transport::real_sleep(std::time::Duration::from_millis(50));
                        let _ = s.write_all(&crate::transport::raw_ws_frame(8, &1006u16.to_be_bytes()));
                    }
                }
                crate::transport::real_sleep(std::time::Duration::from_millis(50));
                let mut buf = [0u8; 256];
                let _ = s.set_read_timeout(Some(std::time::Duration::from_millis(100)));
                let _ = s.read(&mut buf);
                drop(s);
            }
            Bye::WebSocket => {
                let _ = crate::transport::ws_exchange_until(srv.ws, vec![crate::transport::Frame::Text(format!("use-db {} ptok", db)), crate::transport::Frame::Text("get $connections".into())], "value", 30_000);
            }
            _ => {
                let mut s = match std::net::TcpStream::connect(("127.0.0.1", srv.tcp)) {
                    Ok(s) => s,
                    Err(e) => {
                        eprintln!("C17 transport engine: connect: {}", e);
                        out.nontrivial = false;
                        return out;
                    }
                };
                s.set_read_timeout(Some(std::time::Duration::from_millis(200))).ok();
                let _ = s.write_all(format!("use-db {} ptok\n", db).as_bytes());
                // wait until the session is counted
                let mut counted = false;
                for _ in 0..6000 {
                    if count(srv) != "0" {
                        counted = true;
                        break;
                    }
                    crate::transport::real_sleep(std::time::Duration::from_millis(5));
                }
                if !counted {
                    out.fail = Some(("C17|transport|session-not-counted".into(), format!("session {} ({:?}): use-db over TCP did not raise $connections within 30 s", i, bye)));
                    return out;
                }
                match bye {
                    Bye::TcpClean => {
                        let mut buf = [0u8; 4096];
                        let _ = s.read(&mut buf);
                        let _ = s.shutdown(std::net::Shutdown::Both);
                    }
                    Bye::TcpResetWithUnreadReplies => {
                        // ask for replies and close without reading them: the kernel answers the server with a reset
                        let _ = s.write_all(b"keys\nget $connections\nkeys\n");
                        crate::transport::real_sleep(std::time::Duration::from_millis(30));
                    }
                    Bye::TcpAfterANonUtf8Line => {
                        let _ = s.write_all(b"get \xff\xfe\xfd\n");
                        let mut buf = [0u8; 4096];
                        let _ = s.read(&mut buf);
                        let _ = s.shutdown(std::net::Shutdown::Both);
                    }
                    Bye::TcpHalfLineThenClose => {
                        let _ = s.write_all(b"get $conn");
                    }
                    Bye::TcpSlowReader => {
                        {
                            let mut admin = Session::new();
                            admin.auth(&srv.node);
                            admin.send(&srv.node, &format!("use-db {} ptok", db));
                            admin.send(&srv.node, &format!("set big {}", "x".repeat(64 * 1024)));
                            let _ = admin.disconnect(&srv.node);
                        }
                        let _ = s.write_all("get big\n".repeat(600).as_bytes());
                        crate::transport::real_sleep(std::time::Duration::from_millis(1500));
                    }
                    Bye::WebSocket | Bye::HttpRequests | Bye::WebSocketOddCloseCode { .. } | Bye::WebSocketBadTextThenClose => unreachable!(),
                }
                drop(s);
            }
        }
        if !settle("0") {
            out.fail = Some((format!("C17|transport|connection-not-released|{:?}", bye), format!("session {} went away ({:?}) and 30 s later $connections of the database is still {:?} with no session open; burst {:?}", i, bye, count(srv), case.byes)));
            return out;
        }
    }
    out
}

// ------------------------------------------------------------------ two sessions interleaved
// Two sessions run short programs of {select d0, select d1, disconnect} at once under the baton scheduler (a switch is
// possible at every lock acquisition of the key maps); when both are done, `$connections` of each database must equal the
// number of sessions that select it now.

#[derive(Clone, Debug, Serialize, Deserialize, PartialEq)]
pub enum CEv {
    Use { db: usize },
    Disconnect,
}

#[derive(Clone, Debug, Serialize, Deserialize)]
pub struct CCase {
    pub programs: Vec<Vec<CEv>>,
    pub schedule: Vec<u16>,
}

fn ccase_strategy() -> impl Strategy<Value = CCase> {
    let ev = prop_oneof![3 => (0..2usize).prop_map(|db| CEv::Use { db }), 1 => Just(CEv::Disconnect)];
    (prop::collection::vec(prop::collection::vec(ev, 1..4), 2..4), prop::collection::vec(prop_oneof![2 => Just(0u16), 3 => any::<u16>()], 0..30)).prop_map(|(programs, schedule)| CCase { programs, schedule })
}

pub fn run_conc(ctx: &Ctx, case: &CCase) -> Outcome {
    let dir = ctx.fresh_dir();
    let mut node = Node::boot_single(&dir);
    let mut admin = Session::new();
    admin.auth(&node);
    for d in DBS {
        admin.send(&node, &format!("create-db {} tok-{}", d, d));
    }
    let _ = admin.disconnect(&node);
    node.pump();
    let mut tasks: Vec<Box<dyn FnOnce(&crate::sched::TaskCtx) -> Option<usize> + Send>> = vec![];
    for prog in case.programs.iter() {
        let prog = prog.clone();
        let dbs = node.dbs.clone();
        tasks.push(Box::new(move |t: &crate::sched::TaskCtx| {
            let (mut client, _rx) = nundb::bo::Client::new_empty_and_receiver();
            let mut sel: Option<usize> = None;
            for ev in prog.iter() {
                t.pause("cmd");
                match ev {
                    CEv::Use { db } => {
                        let r = nundb::process_request::process_request(&format!("use-db {} tok-{}", DBS[*db], DBS[*db]), &dbs, &mut client);
                        if !is_refusal(&r) {
                            sel = Some(*db);
                        }
                    }
                    CEv::Disconnect => {
                        nundb::process_request::process_request("unwatch-all", &dbs, &mut client);
                        client.left(&dbs);
                        return None;
                    }
                }
            }
            // the session stays open: keep its client alive until the verdict (a dropped Client does not count as left)
            std::mem::forget(client);
            sel
        }));
    }
    let mut out = Outcome::ok(false);
    out.classes.push("two-or-three-sessions-interleaved");
    match crate::sched::run(tasks, &case.schedule, crate::sched::lock_sites) {
        Err(e) => {
            eprintln!("C17 concurrent engine: {}", e);
        }
        Ok((results, info)) => {
            let sels: Vec<Option<usize>> = results.into_iter().map(|r| r.unwrap_or(None)).collect();
            out.nontrivial = info.switches > 0;
            for (d, name) in DBS.iter().enumerate() {
                let want = sels.iter().filter(|s| **s == Some(d)).count();
                let got = count_of(&node, name);
                // (a database nobody ever selected has no $connections key yet)
                if got != want.to_string() && !(want == 0 && got == "<none>") {
                    out.fail = Some(("C17|wrong-count|sessions-interleaved".into(), format!("database {}: $connections is {:?} when everything is quiet, {} session(s) select it now; programs {:?}; trace {:?}", name, got, want, case.programs, info.trace)));
                    break;
                }
            }
        }
    }
    drop(node);
    ctx.drop_dir(&dir);
    out
}

pub fn run(ctx: &Ctx, rep: &mut Report) {
    crate::interpose::virtual_clock(true);
    {
        let srv = crate::props::c10::TServer::start(ctx);
        let nt = ctx.amount(160, 4000);
        crate::report::explore_with(ctx, rep, "transport-disconnect-paths", nt, 30, tcase_strategy(), |c| run_transport_case(&srv, c));
        crate::interpose::virtual_clock(true);
        if !rep.failures.is_empty() {
            return;
        }
    }
    let nc = ctx.amount(6000, 200_000);
    explore(ctx, rep, "sessions-interleaved", nc, ccase_strategy(), |c| run_conc(ctx, c));
    if !rep.failures.is_empty() {
        return;
    }
    let n = ctx.amount(20_000, 400_000);
    explore(ctx, rep, "events", n, prop::collection::vec(ev_strategy(), 1..13).prop_map(|evs| Case { evs }), |c| run_case(ctx, c));
    let alpha = alphabet();
    let max_len = ctx.amount(3, 5) as usize;
    for len in 1..=max_len {
        if !rep.failures.is_empty() {
            break;
        }
        enumerate(ctx, rep, &format!("exhaustive-len{}", len), sequences(&alpha, len), |c| run_case(ctx, c));
    }
}

pub fn replay(ctx: &Ctx, _engine: &str, case: &J) -> Result<Option<(String, String)>, String> {
    if _engine == "transport-disconnect-paths" {
        let srv = crate::props::c10::TServer::start(ctx);
        return replay_guarded::<TCase>(ctx, case, |c| run_transport_case(&srv, c));
    }
    if _engine == "sessions-interleaved" {
        crate::interpose::virtual_clock(true);
        return replay_guarded::<CCase>(ctx, case, |c| run_conc(ctx, c));
    }
    crate::interpose::virtual_clock(true);
    replay_guarded::<Case>(ctx, case, |c| run_case(ctx, c))
}
