//! C04 — live replication converges: at quiescence every node equals the primary.
//! (also asserts C15's end-to-end clause: no pending operation is left)
use crate::cluster::Cluster;
use crate::report::{explore_with, replay_guarded, Ctx, Outcome, Report};
use nundb::bo::ClusterRole;
use proptest::prelude::*;
use proptest::sample::select;
use serde::{Deserialize, Serialize};
use serde_json::Value as J;
use std::collections::BTreeMap;

#[derive(Clone, Debug, Serialize, Deserialize, PartialEq)]
pub enum Cmd {
    Set { k: String },
    SetSafeFresh { k: String },
    SetSafeStale { k: String },
    Remove { k: String },
    Inc { k: String, n: i32 },
    CreateDb { name: String },
    CreateUser { name: String },
    SetPermissions { name: String },
    Snapshot { reclaim: bool },
    /// `debug force-election` on the node: the primary may change while operations are in flight
    ForceElection,
}

#[derive(Clone, Debug, Serialize, Deserialize)]
pub struct Step {
    /// node the client is connected to (index modulo cluster size; 0 is the primary)
    pub at: usize,
    pub cmd: Cmd,
    /// let the cluster become quiet before the next command
    pub settle: bool,
    /// the line ends with CR LF (a telnet-like TCP client): the CR is no part of the command
    #[serde(default)]
    pub crlf: bool,
}

#[derive(Clone, Debug, Serialize, Deserialize)]
pub struct Case {
    pub n: usize,
    pub steps: Vec<Step>,
    pub schedule: Vec<u16>,
}

pub fn cmd_strategy() -> impl Strategy<Value = Cmd> {
    let k = select(vec!["a", "b", "n"]).prop_map(|s| s.to_string());
    prop_oneof![
        5 => k.clone().prop_map(|k| Cmd::Set { k }),
        2 => k.clone().prop_map(|k| Cmd::SetSafeFresh { k }),
        1 => k.clone().prop_map(|k| Cmd::SetSafeStale { k }),
        3 => k.clone().prop_map(|k| Cmd::Remove { k }),
        3 => select(vec![1, 3]).prop_map(|n| Cmd::Inc { k: "n".to_string(), n }),
        1 => select(vec!["x1", "x2"]).prop_map(|s| Cmd::CreateDb { name: s.to_string() }),
        1 => select(vec!["u1", "u2"]).prop_map(|s| Cmd::CreateUser { name: s.to_string() }),
        1 => select(vec!["u1", "u2"]).prop_map(|s| Cmd::SetPermissions { name: s.to_string() }),
        1 => any::<bool>().prop_map(|reclaim| Cmd::Snapshot { reclaim }),
        1 => Just(Cmd::ForceElection),
    ]
}

pub fn case_strategy() -> impl Strategy<Value = Case> {
    (2..4usize, prop::collection::vec((0..3usize, cmd_strategy(), prop::bool::weighted(0.6), prop::bool::weighted(0.15)), 1..9), prop::collection::vec(prop_oneof![3 => Just(0u16), 1 => any::<u16>()], 0..60))
        .prop_map(|(n, steps, schedule)| Case { n, steps: steps.into_iter().map(|(at, cmd, settle, crlf)| Step { at, cmd, settle, crlf }).collect(), schedule })
}

pub fn chooser(schedule: Vec<u16>) -> impl FnMut(usize) -> usize {
    let mut pos = 0usize;
    move |n: usize| -> usize {
        let c = if pos < schedule.len() { schedule[pos] } else { 0 };
        pos += 1;
        if c == 0 { 0 } else { ((c - 1) as usize * n) >> 16 }
    }
}

/// staggered start of n nodes (node 0 first = oldest = primary), each start settled with the fair default schedule
pub fn boot_cluster(scratch: &str, n: usize) -> Result<Cluster, String> {
    let pids: Vec<u128> = (0..n).map(|i| 1000 + 100 * i as u128).collect();
    let mut c = Cluster::new(scratch, n, &pids);
    for i in 0..n {
        c.boot(i);
        if !c.run(&mut |_| 0, 400_000) {
            return Err(format!("set-up: the cluster did not become quiet after starting node {}", i));
        }
    }
    if c.role(0) != Some(ClusterRole::Primary) || (1..n).any(|i| c.role(i) != Some(ClusterRole::Secoundary)) {
        return Err(format!("set-up: unexpected roles {:?}", (0..n).map(|i| c.role(i).map(|r| r.to_string())).collect::<Vec<_>>()));
    }
    Ok(c)
}

pub fn admin_lines(db: &str, tok: &str, line: &str) -> Vec<String> {
    vec![format!("auth {} {}", crate::node::USER, crate::node::PWD), format!("use-db {} {}", db, tok), line.to_string()]
}

/// per node: db -> key -> (value, version, removed), without the per-node connection counter
pub fn cluster_dump(c: &Cluster, i: usize) -> BTreeMap<String, BTreeMap<String, (String, i32, bool)>> {
    let mut d = c.nodes[i].node.as_ref().unwrap().dump();
    d.remove("$admin");
    for (_db, m) in d.iter_mut() {
        m.remove("$connections");
        // a key that was removed and is only a tombstone counts as removed whatever the tombstone looks like
        for (_k, v) in m.iter_mut() {
            if v.2 {
                *v = (String::new(), 0, true);
            }
        }
    }
    d
}

pub fn render(cmd: &Cmd, uniq: &str, cur_ver: i32) -> String {
    match cmd {
        // (key b: the value holds a CR in its middle; every node must store the same text)
        Cmd::Set { k } => format!("set {} {}", k, if k == "n" { "10".to_string() } else if k == "b" { format!("{}\rmid", uniq) } else { uniq.to_string() }),
        Cmd::SetSafeFresh { k } => format!("set-safe {} {} {}", k, cur_ver.max(0), if k == "n" { "20".to_string() } else { uniq.to_string() }),
        Cmd::SetSafeStale { k } => format!("set-safe {} 0 {}", k, if k == "n" { "30".to_string() } else { uniq.to_string() }),
        Cmd::Remove { k } => format!("remove {}", k),
        Cmd::Inc { k, n } => format!("increment {} {}", k, n),
        Cmd::CreateDb { name } => format!("create-db {} tok-{}", name, name),
        Cmd::CreateUser { name } => format!("create-user {} tok-{}{}", name, if name == "u2" { "\r" } else { "" }, name),
        // (u2: a list with an entry that names no pattern)
        Cmd::SetPermissions { name } => format!("set-permissions {} {}", name, if name == "u2" { "rw a*|r" } else { "rw *" }),
        Cmd::Snapshot { reclaim } => format!("snapshot {}", reclaim),
        Cmd::ForceElection => "debug force-election".to_string(),
    }
}

fn cmd_name(cmd: &Cmd) -> &'static str {
    match cmd {
        Cmd::Set { .. } => "set",
        Cmd::SetSafeFresh { .. } | Cmd::SetSafeStale { .. } => "set-safe",
        Cmd::Remove { .. } => "remove",
        Cmd::Inc { .. } => "increment",
        Cmd::CreateDb { .. } => "create-db",
        Cmd::CreateUser { .. } => "create-user",
        Cmd::SetPermissions { .. } => "set-permissions",
        Cmd::Snapshot { .. } => "snapshot",
        Cmd::ForceElection => "force-election",
    }
}

fn key_of(cmd: &Cmd) -> Option<String> {
    match cmd {
        Cmd::Set { k } | Cmd::SetSafeFresh { k } | Cmd::SetSafeStale { k } | Cmd::Remove { k } | Cmd::Inc { k, .. } => Some(k.clone()),
        Cmd::CreateUser { name } => Some(format!("$$user_{}", name)),
        Cmd::SetPermissions { name } => Some(format!("$$permission_${}", name)),
        _ => None,
    }
}

pub fn run_case(ctx: &Ctx, case: &Case) -> Outcome {
    let scratch = ctx.fresh_dir();
    let mut c = match boot_cluster(&scratch, case.n) {
        Ok(c) => c,
        Err(e) => {
            ctx.drop_dir(&scratch);
            return Outcome::failed("C04|set-up", e);
        }
    };
    let mut choose = chooser(case.schedule.clone());
    // a database with some keys, created on the primary and replicated before the history starts
    c.client(0, vec![format!("auth {} {}", crate::node::USER, crate::node::PWD), "create-db d tok".into(), "use-db d tok".into(), "set a a0".into(), "set b b0".into(), "set n 5".into(), "set a a1".into()]);
    let mut fail: Option<(String, String)> = None;
    if !c.run(&mut |_| 0, 400_000) {
        fail = Some(("C04|set-up".into(), "the cluster did not become quiet after creating the database".into()));
    }
    // who touched each key last: (command, role of the node it was issued on)
    let with_election = case.steps.iter().any(|s| matches!(s.cmd, Cmd::ForceElection));
    // (an election that does not end is stopped early: 30 000 scheduler steps are far above any settling run)
    let budget: u64 = if with_election { 30_000 } else { 400_000 };
    let mut election_unsettled = false;
    let mut last_touch: BTreeMap<String, Vec<(String, &'static str)>> = BTreeMap::new();
    // nodes on which a command on each key was issued
    let mut touched_at: BTreeMap<String, std::collections::BTreeSet<usize>> = BTreeMap::new();
    let mut on_secondary = 0;
    let mut unsettled_pairs = 0;
    let mut prev_unsettled_key: Option<String> = None;
    if fail.is_none() {
        for (i, st) in case.steps.iter().enumerate() {
            let at = st.at % case.n;
            let role = if at == 0 { "primary" } else { "secondary" };
            if at != 0 {
                on_secondary += 1;
            }
            let cur = key_of(&st.cmd).and_then(|k| c.nodes[at].node.as_ref().unwrap().dump().get("d").and_then(|m| m.get(&k).map(|v| v.1))).unwrap_or(0);
            let line = render(&st.cmd, &format!("v{}", i), cur);
            let line = if st.crlf { format!("{}\r", line) } else { line };
            c.client(at, admin_lines("d", "tok", &line));
            if let Some(k) = key_of(&st.cmd) {
                last_touch.entry(k.clone()).or_default().push((cmd_name(&st.cmd).to_string(), role));
                touched_at.entry(k.clone()).or_default().insert(at);
                if prev_unsettled_key.as_ref() == Some(&k) {
                    unsettled_pairs += 1;
                }
                prev_unsettled_key = if st.settle { None } else { Some(k) };
            }
            if st.settle && !c.run(&mut choose, budget) {
                if with_election {
                    election_unsettled = true;
                } else {
                    fail = Some(("C04|no-quiescence".into(), format!("after step {} ({:?}@n{}): traffic does not stop; trace tail {:?}", i, st.cmd, at, c.trace_tail(30))));
                }
                break;
            }
        }
    }
    if fail.is_none() && !election_unsettled && !c.run(&mut choose, budget) {
        if with_election {
            election_unsettled = true;
        } else {
            fail = Some(("C04|no-quiescence".into(), format!("traffic does not stop; trace tail {:?}", c.trace_tail(30))));
        }
    }
    if election_unsettled {
        // whether elections end is C07's business (and recorded there); nothing is judged on a cluster that is not quiet
        drop(c);
        ctx.drop_dir(&scratch);
        let mut o = Outcome::ok(false);
        o.classes.push("history-with-an-election-that-did-not-settle");
        return o;
    }
    if fail.is_none() && !c.panics.is_empty() {
        if with_election {
            // (the recorded re-join panic of the supervisor belongs to C07/C10)
            drop(c);
            ctx.drop_dir(&scratch);
            let mut o = Outcome::ok(false);
            o.classes.push("history-with-an-election-and-a-panic");
            return o;
        }
        fail = Some((format!("C04|panic|{}", c.panics[0].chars().skip(3).take(50).collect::<String>()), format!("{:?}", c.panics)));
    }
    let mut known_hits: BTreeMap<String, u64> = BTreeMap::new();
    // histories with a forced election are outside this property's premise (one primary throughout): what they write
    // is not compared; only C15's end-to-end clause is judged for them (no operation is left pending at quiescence)
    if fail.is_none() && !with_election {
        let primary = cluster_dump(&c, 0);
        'nodes: for i in 1..case.n {
            let d = cluster_dump(&c, i);
            let dbs_p: Vec<&String> = primary.keys().collect();
            let dbs_i: Vec<&String> = d.keys().collect();
            if dbs_p != dbs_i {
                fail = Some(("C04|diverged|database-list".into(), format!("primary has databases {:?}, n{} has {:?}", dbs_p, i, dbs_i)));
                break;
            }
            for (db, pm) in primary.iter() {
                let im = &d[db];
                let mut keys: Vec<&String> = pm.keys().chain(im.keys()).collect();
                keys.sort();
                keys.dedup();
                for k in keys {
                    let (pv, iv) = (pm.get(k), im.get(k));
                    let absent = (String::new(), 0, true);
                    let (pv, iv) = (pv.unwrap_or(&absent), iv.unwrap_or(&absent));
                    if pv != iv {
                        // racing versioned writes from different nodes: agreement is required only where the primary accepted
                        let touches = last_touch.get(k).cloned().unwrap_or_default();
                        let what = if pv.2 != iv.2 { "removed-vs-live" } else if pv.0 != iv.0 { "value" } else { "version" };
                        let sec: Vec<&str> = touches.iter().filter(|(_, r)| *r == "secondary").map(|(c, _)| c.as_str()).collect();
                        // two listed root causes; anything else is new
                        let who = if sec.contains(&"remove") {
                            "key-removed-on-a-secondary"
                        } else if sec.iter().any(|c| ["set", "set-safe", "create-user", "set-permissions"].contains(c)) {
                            "key-written-on-a-secondary"
                        } else if sec.is_empty() {
                            "only-primary-commands"
                        } else {
                            "only-increments-on-secondaries"
                        };
                        // where: the node that differs issued a command on this key itself, or only received copies
                        let where_ = if touched_at.get(k).map(|s| s.contains(&i)).unwrap_or(false) { "on-a-node-that-issued-a-command-on-the-key" } else { "on-a-node-that-only-received-copies" };
                        let sig = if who.starts_with("key-") { format!("C04|diverged|any|{}|{}", who, where_) } else { format!("C04|diverged|{}|{}", what, who) };
                        if ctx.is_known(&sig) {
                            // a listed finding: this key is excluded (counted), the other keys are still judged
                            *known_hits.entry(sig).or_insert(0) += 1;
                            continue;
                        }
                        fail = Some((sig, format!("database {} key {:?}: primary has {:?}, n{} has {:?}; commands on this key: {:?}", db, k, pv, i, iv, touches)));
                        break 'nodes;
                    }
                }
            }
        }
    }
    if fail.is_none() {
        for i in 0..case.n {
            let p = c.nodes[i].node.as_ref().unwrap().pending_ops();
            if p != 0 {
                fail = Some(("C04|pending-operations-left".into(), format!("n{} still reports {} pending operations at quiescence: {:?}", i, p, c.nodes[i].node.as_ref().unwrap().dbs.get_pending_messages_debug())));
                break;
            }
        }
    }
    let msgs = c.delivered.len();
    drop(c);
    ctx.drop_dir(&scratch);
    let mut out = Outcome::ok(on_secondary > 0 || unsettled_pairs > 0);
    if on_secondary > 0 {
        out.classes.push("command-issued-on-a-secondary");
    }
    if unsettled_pairs > 0 {
        out.classes.push("two-commands-on-one-key-in-flight");
    }
    out.counters.push(("messages_delivered", msgs as u64));
    out.known_image_hits = known_hits;
    out.fail = fail;
    out
}

// ------------------------------------------------------------------ concurrent clients on the primary
// Two or three client sessions on the primary run at once (their commands interleave at nun-db's lock acquisitions
// and before the hand-over to the replication channel, E2 baton schedule); everything they replicate is then
// delivered in order and the secondary must equal the primary.

#[derive(Clone, Debug, Serialize, Deserialize)]
pub struct ConcCase {
    pub programs: Vec<Vec<Cmd>>,
    pub schedule: Vec<u16>,
}

fn conc_cmd_strategy() -> impl Strategy<Value = Cmd> {
    let k = select(vec!["a", "n"]).prop_map(|s| s.to_string());
    prop_oneof![
        3 => k.clone().prop_map(|k| Cmd::Set { k }),
        4 => select(vec![1, 3]).prop_map(|n| Cmd::Inc { k: "n".to_string(), n }),
        1 => k.clone().prop_map(|k| Cmd::Remove { k }),
        // (two sessions creating the same user with different tokens: the user's token key is written by both)
        1 => Just(Cmd::CreateUser { name: "u1".to_string() }),
        // a database created by one session while another one already writes into it (key "x1/a" = key a of database
        // x1: the session selects x1, writes, and selects d again; before x1 exists that write is refused)
        1 => Just(Cmd::CreateDb { name: "x1".to_string() }),
        1 => Just(Cmd::Set { k: "x1/a".to_string() }),
    ]
}

pub fn conc_case_strategy() -> impl Strategy<Value = ConcCase> {
    (prop::collection::vec(prop::collection::vec(conc_cmd_strategy(), 1..4), 2..4), prop::collection::vec(prop_oneof![2 => Just(0u16), 3 => any::<u16>()], 0..40)).prop_map(|(programs, schedule)| ConcCase { programs, schedule })
}

fn conc_sites(site: &str) -> bool {
    crate::sched::lock_sites(site) || site == "process_request.before_replicate"
}

pub fn run_conc_case(ctx: &Ctx, case: &ConcCase) -> Outcome {
    let scratch = ctx.fresh_dir();
    let mut c = match boot_cluster(&scratch, 2) {
        Ok(c) => c,
        Err(e) => {
            ctx.drop_dir(&scratch);
            return Outcome::failed("C04|set-up", e);
        }
    };
    c.client(0, vec![format!("auth {} {}", crate::node::USER, crate::node::PWD), "create-db d tok".into(), "use-db d tok".into(), "set a a0".into(), "set n 5".into()]);
    let mut fail: Option<(String, String)> = None;
    if !c.run(&mut |_| 0, 400_000) {
        fail = Some(("C04|set-up".into(), "the cluster did not become quiet after creating the database".into()));
    }
    let mut switches = 0;
    let mut same_key = false;
    if fail.is_none() {
        let mut programs = vec![];
        let mut keys_by_prog: Vec<Vec<String>> = vec![];
        for (pi, p) in case.programs.iter().enumerate() {
            let mut lines = vec![format!("auth {} {}", crate::node::USER, crate::node::PWD), "use-db d tok".to_string()];
            for (ci, cmd) in p.iter().enumerate() {
                if let Cmd::Set { k } = cmd {
                    if let Some((db, key)) = k.split_once('/') {
                        lines.push(format!("use-db {} tok-{}", db, db));
                        lines.push(format!("set {} p{}c{}", key, pi, ci));
                        lines.push("use-db d tok".to_string());
                        continue;
                    }
                }
                lines.push(match cmd {
                    Cmd::CreateUser { name } => format!("create-user {} tok-p{}c{}", name, pi, ci),
                    _ => render(cmd, &format!("p{}c{}", pi, ci), 0),
                });
            }
            keys_by_prog.push(p.iter().filter_map(key_of).collect());
            programs.push(lines);
        }
        same_key = (0..keys_by_prog.len()).any(|i| (i + 1..keys_by_prog.len()).any(|j| keys_by_prog[i].iter().any(|k| keys_by_prog[j].contains(k))));
        match c.clients_interleaved_with(0, programs, &case.schedule, conc_sites) {
            Err(e) => {
                drop(c);
                ctx.drop_dir(&scratch);
                let mut o = Outcome::ok(false);
                o.classes.push("watchdog");
                eprintln!("C04 concurrent engine: {}", e);
                return o;
            }
            Ok((_replies, sw)) => switches = sw,
        }
        if !c.run(&mut |_| 0, 400_000) {
            fail = Some(("C04|no-quiescence".into(), format!("traffic does not stop after concurrent clients; trace tail {:?}", c.trace_tail(30))));
        }
    }
    if fail.is_none() && !c.panics.is_empty() {
        fail = Some((format!("C04|panic|{}", c.panics[0].chars().skip(3).take(50).collect::<String>()), format!("{:?}", c.panics)));
    }
    if fail.is_none() {
        let (p, s) = (cluster_dump(&c, 0), cluster_dump(&c, 1));
        if p != s {
            let pd = p.get("d").cloned().unwrap_or_default();
            let sd = s.get("d").cloned().unwrap_or_default();
            let mut what = if p.keys().collect::<Vec<_>>() != s.keys().collect::<Vec<_>>() { "database-list".to_string() } else { "a-database-created-by-a-concurrent-session".to_string() };
            let mut detail = format!("primary {:?} secondary {:?}", p.keys().collect::<Vec<_>>(), s.keys().collect::<Vec<_>>());
            for k in ["a", "n", "$$user_u1"] {
                if pd.get(k) != sd.get(k) {
                    let cmds: std::collections::BTreeSet<&'static str> = case.programs.iter().flatten().filter(|c| key_of(c).as_deref() == Some(k)).map(cmd_name).collect();
                    what = format!("{}|{}", if k == "n" { "counter" } else if k.starts_with("$$") { "user-token-key" } else { "text-key" }, cmds.into_iter().collect::<Vec<_>>().join("+"));
                    detail = format!("key {:?}: primary has {:?}, the secondary {:?} after everything was delivered; programs {:?}", k, pd.get(k), sd.get(k), case.programs);
                    break;
                }
            }
            fail = Some((format!("C04|diverged-after-concurrent-primary-clients|{}", what), detail));
        }
    }
    if fail.is_none() {
        for i in 0..2 {
            let p = c.nodes[i].node.as_ref().unwrap().pending_ops();
            if p != 0 {
                fail = Some(("C04|pending-operations-left".into(), format!("n{} still reports {} pending operations at quiescence", i, p)));
                break;
            }
        }
    }
    drop(c);
    ctx.drop_dir(&scratch);
    let mut out = Outcome::ok(same_key && switches > 0);
    if same_key && switches > 0 {
        out.classes.push("concurrent-primary-clients-on-one-key-with-a-context-switch");
    }
    out.fail = fail;
    out
}

pub fn run(ctx: &Ctx, rep: &mut Report) {
    if rep.failures.is_empty() {
        let n = ctx.amount(1600, 40_000);
        explore_with(ctx, rep, "concurrent-primary-clients", n, 200, conc_case_strategy(), |c| run_conc_case(ctx, c));
    }
    let n = ctx.amount(3200, 60_000);
    explore_with(ctx, rep, "histories", n, 200, case_strategy(), |c| run_case(ctx, c));
}

pub fn replay(ctx: &Ctx, engine: &str, case: &J) -> Result<Option<(String, String)>, String> {
    if engine == "concurrent-primary-clients" {
        return replay_guarded::<ConcCase>(ctx, case, |c| run_conc_case(ctx, c));
    }
    replay_guarded::<Case>(ctx, case, |c| run_case(ctx, c))
}
