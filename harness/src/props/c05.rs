//! C05 — a (re)joining node resynchronises to exactly the primary's data.
use crate::cluster::Cluster;
use crate::props::c04::{boot_cluster, chooser, cluster_dump};
use crate::report::{enumerate, explore_with, replay_guarded, Ctx, Outcome, Report};
use nundb::bo::Request;
use proptest::prelude::*;
use proptest::sample::select;
use serde::{Deserialize, Serialize};
use serde_json::Value as J;
use std::collections::{BTreeMap, BTreeSet};

pub const VALUES: &[&str] = &["x", "two words", "5 apples", "", "7", "é✓ z"];

#[derive(Clone, Debug, Serialize, Deserialize, PartialEq)]
pub enum Cmd {
    Set { db: usize, k: String, v: String },
    Remove { db: usize, k: String },
    Inc { db: usize },
    /// create database 1 or 2 (database 0 always exists) with a strategy
    CreateDb { db: usize, strategy: String },
    Snapshot { db: usize },
}

#[derive(Clone, Debug, Serialize, Deserialize)]
pub struct Case {
    pub before: Vec<Cmd>,
    pub away: Vec<Cmd>,
    pub during: Vec<Cmd>,
    /// how the secondary leaves: "kill" | "clean"
    pub leave: String,
    /// its disk when it comes back: "kept" | "empty"
    pub disk: String,
    /// snapshot tick on the secondary before it leaves (its databases are on its disk)
    pub joiner_snapshots: bool,
    pub schedule: Vec<u16>,
    /// the primary restarts cleanly (snapshot at shutdown, operation log kept) while the secondary is away, before it
    /// accepts the `away` commands: what it logs afterwards has to be found by the incremental synchronisation, too
    #[serde(default)]
    pub primary_restarts: bool,
    /// the restart of the primary is a kill (no snapshot at shutdown; an op-log whose flag is invalid is discarded at
    /// the start, together with the keys map): the joiner is compared with what the primary holds afterwards
    #[serde(default)]
    pub primary_killed: bool,
    /// at the end of the away phase database d1/d2 (created with the arbiter strategy now if it does not exist) gets a
    /// conflict on key c that an arbiter client resolves: the resolved value is a write like any other
    #[serde(default)]
    pub resolved_conflict_while_away: Option<usize>,
}

fn cmd_strategy() -> impl Strategy<Value = Cmd> {
    let db = prop_oneof![4 => Just(0usize), 1 => Just(1usize), 1 => Just(2usize)];
    let k = select(vec!["a", "b", "c"]).prop_map(|s| s.to_string());
    prop_oneof![
        6 => (db.clone(), k.clone(), select(VALUES.to_vec())).prop_map(|(db, k, v)| Cmd::Set { db, k, v: v.to_string() }),
        2 => (db.clone(), k).prop_map(|(db, k)| Cmd::Remove { db, k }),
        1 => db.clone().prop_map(|db| Cmd::Inc { db }),
        2 => (1..3usize, select(vec!["none", "newer", "arbiter"])).prop_map(|(db, s)| Cmd::CreateDb { db, strategy: s.to_string() }),
        1 => db.prop_map(|db| Cmd::Snapshot { db }),
    ]
}

pub fn case_strategy() -> impl Strategy<Value = Case> {
    (
        prop::collection::vec(cmd_strategy(), 0..5),
        prop::collection::vec(cmd_strategy(), 1..6),
        prop::collection::vec(cmd_strategy(), 0..3),
        select(vec!["kill", "clean"]),
        select(vec!["kept", "kept", "empty"]),
        any::<bool>(),
        prop::collection::vec(prop_oneof![3 => Just(0u16), 1 => any::<u16>()], 0..50),
        prop::bool::weighted(0.3),
        prop_oneof![3 => Just(None), 1 => (1..3usize).prop_map(Some)],
    )
        .prop_map(|(before, away, during, leave, disk, joiner_snapshots, schedule, primary_restarts, resolved_conflict_while_away)| Case { before, away, during, leave: leave.to_string(), disk: disk.to_string(), joiner_snapshots, schedule, primary_restarts, primary_killed: false, resolved_conflict_while_away })
        .prop_flat_map(|c| prop::bool::weighted(0.4).prop_map(move |k| Case { primary_killed: k && c.primary_restarts, ..c.clone() }))
}

fn dbname(i: usize) -> String {
    format!("d{}", i)
}

struct Ctl {
    exists: BTreeSet<usize>,
    counter: u32,
}

fn issue(c: &mut Cluster, ctl: &mut Ctl, cmd: &Cmd) -> Option<(usize, String)> {
    let auth = format!("auth {} {}", crate::node::USER, crate::node::PWD);
    ctl.counter += 1;
    match cmd {
        Cmd::CreateDb { db, strategy } => {
            if ctl.exists.contains(db) {
                return None;
            }
            ctl.exists.insert(*db);
            c.client(0, vec![auth, format!("create-db {} tok{} {}", dbname(*db), db, strategy)]);
            Some((*db, "$create".to_string()))
        }
        Cmd::Set { db, k, v } => {
            if !ctl.exists.contains(db) {
                return None;
            }
            c.client(0, vec![auth, format!("use-db {} tok{}", dbname(*db), db), format!("set {} {}", k, v)]);
            Some((*db, k.clone()))
        }
        Cmd::Remove { db, k } => {
            if !ctl.exists.contains(db) {
                return None;
            }
            c.client(0, vec![auth, format!("use-db {} tok{}", dbname(*db), db), format!("remove {}", k)]);
            Some((*db, k.clone()))
        }
        Cmd::Inc { db } => {
            if !ctl.exists.contains(db) {
                return None;
            }
            c.client(0, vec![auth, format!("use-db {} tok{}", dbname(*db), db), "increment n 2".to_string()]);
            Some((*db, "n".to_string()))
        }
        Cmd::Snapshot { db } => {
            if !ctl.exists.contains(db) {
                return None;
            }
            c.client(0, vec![auth, format!("use-db {} tok{}", dbname(*db), db), "snapshot false".to_string()]);
            None
        }
    }
}

pub fn run_case(ctx: &Ctx, case: &Case) -> Outcome {
    let scratch = ctx.fresh_dir();
    let mut c = match boot_cluster(&scratch, 2) {
        Ok(c) => c,
        Err(e) => {
            ctx.drop_dir(&scratch);
            return Outcome::failed("C05|set-up", e);
        }
    };
    let auth = format!("auth {} {}", crate::node::USER, crate::node::PWD);
    let mut ctl = Ctl { exists: BTreeSet::new(), counter: 0 };
    ctl.exists.insert(0);
    c.client(0, vec![auth.clone(), "create-db d0 tok0 none".into(), "use-db d0 tok0".into(), "set a a0".into(), "set n 5".into()]);
    let mut fail: Option<(String, String)> = None;
    let budget = 400_000;
    let mut settle = |c: &mut Cluster, what: &str, fail: &mut Option<(String, String)>| {
        if fail.is_none() && !c.run(&mut |_| 0, budget) {
            *fail = Some(("C05|no-quiescence".into(), format!("{}: traffic does not stop; trace tail {:?}", what, c.trace_tail(30))));
        }
    };
    settle(&mut c, "set-up", &mut fail);
    // ---- before departure: replicated live
    for cmd in case.before.iter() {
        issue(&mut c, &mut ctl, cmd);
        settle(&mut c, "before departure", &mut fail);
    }
    // (the key of the conflict that will be resolved while the joiner is away is written before it leaves, when its
    // database exists by then: the resolution is then the ONLY thing that happens to the key while the joiner is away)
    let mut conflict_key_written_before = false;
    if let (Some(db), None) = (case.resolved_conflict_while_away, &fail) {
        if ctl.exists.contains(&db) {
            c.client(0, vec![auth.clone(), format!("use-db {} tok{}", dbname(db), db), "set c base1".into(), "set c base2".into()]);
            settle(&mut c, "before departure (conflict key)", &mut fail);
            conflict_key_written_before = true;
        }
    }
    // the snapshots requested so far are executed on both nodes (declutter tick)
    if fail.is_none() {
        c.nodes[0].node.as_ref().unwrap().snapshot_tick();
        if case.joiner_snapshots {
            c.nodes[1].node.as_ref().unwrap().snapshot_tick();
        }
    }
    // ---- the secondary leaves
    let joiner_dbs_before_it_left: BTreeSet<String> = if fail.is_none() { cluster_dump(&c, 1).keys().cloned().collect() } else { BTreeSet::new() };
    if fail.is_none() {
        if case.leave == "clean" {
            c.nodes[1].node.as_ref().unwrap().shutdown();
        }
        c.kill(1);
        c.nodes[1].pid = 5000;
        settle(&mut c, "after departure", &mut fail);
        if case.disk == "empty" {
            let _ = std::fs::remove_dir_all(&c.nodes[1].dir);
        }
    }
    if fail.is_none() && case.primary_restarts {
        if !case.primary_killed {
            c.nodes[0].node.as_ref().unwrap().shutdown();
        } else {
            // a key the primary has never seen is written just before the kill: its registration makes the op-log flag
            // invalid, the start-up will discard the log and the keys map (the write itself is lost with the kill unless
            // a snapshot stored it: the joiner is compared with what the primary holds afterwards)
            let auth = format!("auth {} {}", crate::node::USER, crate::node::PWD);
            c.client(0, vec![auth, format!("use-db {} tok0", dbname(0)), "set fresh-before-the-kill 1".to_string()]);
            settle(&mut c, "before the kill of the primary", &mut fail);
        }
        c.kill(0);
        c.boot(0);
        settle(&mut c, "after the restart of the primary", &mut fail);
        if fail.is_none() && c.role(0) != Some(nundb::bo::ClusterRole::Primary) {
            fail = Some(("C05|set-up".into(), "the restarted primary, alone, did not become the primary again".into()));
        }
    }
    // ---- while away
    let mut away_updates: BTreeSet<(usize, String)> = BTreeSet::new();
    let mut away_removes: BTreeSet<(usize, String)> = BTreeSet::new();
    let mut away_creates: BTreeSet<usize> = BTreeSet::new();
    if fail.is_none() {
        for cmd in case.away.iter() {
            if let Some((db, k)) = issue(&mut c, &mut ctl, cmd) {
                match cmd {
                    Cmd::Remove { .. } => {
                        away_removes.insert((db, k.clone()));
                        away_updates.remove(&(db, k));
                    }
                    Cmd::CreateDb { .. } => {
                        away_creates.insert(db);
                    }
                    _ => {
                        away_updates.insert((db, k.clone()));
                        away_removes.remove(&(db, k));
                    }
                }
            }
            settle(&mut c, "while away", &mut fail);
        }
    }
    if let (Some(db), None) = (case.resolved_conflict_while_away, &fail) {
        let name = dbname(db);
        if !ctl.exists.contains(&db) {
            ctl.exists.insert(db);
            away_creates.insert(db);
            c.client(0, vec![auth.clone(), format!("create-db {} tok{} arbiter", name, db)]);
            settle(&mut c, "while away (arbiter database)", &mut fail);
        }
        let is_arbiter = c.nodes[0].node.as_ref().unwrap().dbs.map.read().unwrap().get(&name).map(|d| d.metadata.consensus_strategy.to_string() == "arbiter").unwrap_or(false);
        if is_arbiter && fail.is_none() {
            let login = format!("use-db {} tok{}", name, db);
            if !conflict_key_written_before {
                c.client(0, vec![auth.clone(), login.clone(), "set c base1".into(), "set c base2".into()]);
            }
            let sid = c.open_session(0);
            c.session_send(sid, vec![login.clone(), "arbiter".into()]);
            c.client(0, vec![login.clone(), "set-safe c 0 loser".into()]);
            settle(&mut c, "while away (conflict)", &mut fail);
            let pending = c.nodes[0].node.as_ref().unwrap().dump_db(&name).and_then(|m| m.iter().find(|(k, v)| k.starts_with("$conflicts_c_") && !v.0.starts_with("resolved")).map(|(k, v)| (k["$conflicts_c_".len()..].to_string(), v.0.split(' ').nth(3).and_then(|x| x.parse::<i32>().ok()).unwrap_or(0))));
            if let Some((id, ver)) = pending {
                c.session_send(sid, vec![format!("resolve {} {} c {} winner", id, name, ver)]);
                settle(&mut c, "while away (resolve)", &mut fail);
                away_updates.insert((db, "c".to_string()));
                away_updates.insert((db, format!("$conflicts_c_{}", id)));
            }
            c.close_session(sid);
            settle(&mut c, "while away (arbiter leaves)", &mut fail);
        }
    }
    // ---- it comes back; commands accepted by the primary during the synchronisation
    let mut during_keys: BTreeSet<(usize, String)> = BTreeSet::new();
    let sync_mark = c.delivered.len();
    // databases the joiner had when it left and does not have when it is back up (never snapshotted there): observed right
    // after its start, before any message is delivered
    let mut lost_at_restart: BTreeSet<String> = BTreeSet::new();
    if fail.is_none() {
        c.boot(1);
        let now: BTreeSet<String> = cluster_dump(&c, 1).keys().cloned().collect();
        lost_at_restart = joiner_dbs_before_it_left.difference(&now).cloned().collect();
        let mut choose = chooser(case.schedule.clone());
        // a few scheduler steps, then the "during" commands while the sync is in flight
        for cmd in case.during.iter() {
            for _ in 0..6 {
                let en = c.enabled();
                if en.is_empty() {
                    break;
                }
                let k = choose(en.len()).min(en.len() - 1);
                let a = en[k].clone();
                c.perform(&a);
            }
            // "writes accepted by the primary": while node 0 re-runs the election that the join triggered it is not the
            // primary (what it accepts then is forwarded, to nobody); the command waits until it is primary again
            for _ in 0..20_000 {
                if c.role(0) == Some(nundb::bo::ClusterRole::Primary) {
                    break;
                }
                let en = c.enabled();
                if en.is_empty() {
                    if !c.run_continue(&mut |_| 0, 1) {
                        continue;
                    }
                    break;
                }
                let a = en[0].clone();
                c.perform(&a);
            }
            if c.role(0) != Some(nundb::bo::ClusterRole::Primary) {
                continue;
            }
            if let Some((db, k)) = issue(&mut c, &mut ctl, cmd) {
                during_keys.insert((db, k));
            }
        }
        if !c.run(&mut choose, budget) {
            fail = Some(("C05|no-quiescence".into(), format!("after the rejoin: traffic does not stop; trace tail {:?}", c.trace_tail(30))));
        }
    }
    if fail.is_none() && !c.panics.is_empty() {
        let what = if c.panics[0].contains("supervisor loop died") { "supervisor-loop-died".to_string() } else if c.panics[0].contains("replication loop died") { "replication-loop-died".to_string() } else { c.panics[0].chars().skip(3).take(60).collect::<String>() };
        fail = Some((format!("C05|panic|{}", what), format!("{:?}", c.panics)));
    }
    let mut known_hits: BTreeMap<String, u64> = BTreeMap::new();
    let mut judge = |sig: String, detail: String, fail: &mut Option<(String, String)>| {
        if fail.is_some() {
            return;
        }
        if ctx.is_known(&sig) {
            *known_hits.entry(sig).or_insert(0) += 1;
        } else {
            *fail = Some((sig, detail));
        }
    };
    // did an operation replicated live reach the joiner before it asked for what it had missed? (its request carries the
    // time of the newest record of its own log, which such an operation has just moved forward)
    let live_before_since = {
        let since_at = c.delivered[sync_mark..].iter().position(|m| m.from == 1 && m.to == 0 && m.line.starts_with("replicate-since"));
        let live_at = c.delivered[sync_mark..].iter().position(|m| m.from == 0 && m.to == 1 && m.dir == "c2s" && m.line.starts_with("rp ") && (m.line.contains(" replicate") || m.line.contains(" create-db")));
        matches!((live_at, since_at), (Some(l), Some(s)) if l < s) || (live_at.is_some() && since_at.is_none())
    };
    // ---- wire round trip: every sync message must decode to what it was built from
    // full synchronisation = the joiner asked for everything (`replicate-since <name> 0`)
    let mut full_sync = c.delivered[sync_mark..].iter().any(|m| m.from == 1 && m.to == 0 && m.line.starts_with("replicate-since") && m.line.trim_end().ends_with(" 0"));
    // ---- and the builder: every sync `replicate` names a database and key the primary has, with the value the primary
    // holds; every key written while the joiner was away (and still live) is named
    let primary_now = if fail.is_none() { cluster_dump(&c, 0) } else { Default::default() };
    if std::env::var("NV_C05_DEBUG").is_ok() {
        eprintln!("  primary now: {:?}\n  trace tail: {:?}", primary_now, c.trace_tail(60));
    }
    let mut named: BTreeSet<(String, String)> = BTreeSet::new();
    let mut created_in_stream: BTreeSet<String> = BTreeSet::new();
    let mut saw_sync_lines = false;
    if std::env::var("NV_C05_DEBUG").is_ok() {
        for i in 0..2 {
            let n = c.nodes[i].node.as_ref().unwrap();
            let bytes = std::fs::read(format!("{}/oplog-nun.op", c.nodes[i].dir)).unwrap_or_default();
            let mut recs = vec![];
            let mut j = 0;
            while j + 25 <= bytes.len() {
                recs.push((u64::from_le_bytes(bytes[j..j + 8].try_into().unwrap()) % 1_000_000_000, u64::from_le_bytes(bytes[j + 8..j + 16].try_into().unwrap()), u64::from_le_bytes(bytes[j + 16..j + 24].try_into().unwrap()), bytes[j + 24]));
                j += 25;
            }
            eprintln!("  oplog n{} (ts,key,db,kind): {:?}\n   keys {:?}\n   dbs {:?}", i, recs, n.dbs.id_keys_map.read().unwrap(), n.dbs.id_name_db_map.read().unwrap());
        }
        for m in c.delivered[sync_mark..].iter() {
            eprintln!("  msg n{}->n{} [{} {}] {:?}", m.from, m.to, m.kind, m.dir, m.line);
        }
    }
    if fail.is_none() {
        for m in c.delivered[sync_mark..].iter() {
            if m.from == 0 && m.to == 1 && m.dir == "c2s" && m.kind == "sec2pri" {
                let line = m.line.trim_end_matches('\n');
                if std::env::var("NV_C05_DEBUG").is_ok() {
                    eprintln!("sync line: {:?}", line);
                }
                if line.starts_with("replicate-since") || line.starts_with("rp ") || line.starts_with("auth") || line.starts_with("set-primary") || line.starts_with("replicate-join") {
                    continue;
                }
                if let Some(rest) = line.strip_prefix("replicate ") {
                    // built by the sync code as: replicate <db> <key> <value>
                    let mut it = rest.splitn(3, ' ');
                    let (db, key, value) = (it.next().unwrap_or(""), it.next().unwrap_or(""), it.next().unwrap_or(""));
                    saw_sync_lines = true;
                    named.insert((db.to_string(), key.to_string()));
                    // order of the stream: a key of a database that was created while the joiner was away is useless
                    // before that database's create-db line (the joiner refuses it: "Not a valid database name")
                    if db.get(1..).and_then(|x| x.parse::<usize>().ok()).map(|i| away_creates.contains(&i)).unwrap_or(false) && !created_in_stream.contains(db) {
                        judge("C05|sync-stream-order|key-sent-before-the-create-db-of-its-database".to_string(), format!("the primary sent {:?} before any `create-db {}` in the same synchronisation stream (the database was created while the joiner was away)", line, db), &mut fail);
                    }
                    let dbi: usize = db.get(1..).and_then(|x| x.parse().ok()).unwrap_or(99);
                    if !key.starts_with("$") {
                        match primary_now.get(db).and_then(|m| m.get(key)) {
                            None if during_keys.contains(&(dbi, key.to_string())) => {} // (removed again while the sync was in flight)
                            None => judge("C05|sync-names-a-key-the-primary-does-not-have".to_string(), format!("the primary sent {:?}: it has no key {:?} in database {:?}", line, key, db), &mut fail),
                            Some(pv) if !pv.2 && pv.0 != value && !during_keys.contains(&(dbi, key.to_string())) => {
                                judge("C05|sync-sends-a-value-the-primary-does-not-hold".to_string(), format!("the primary sent {:?}; it holds {:?} for that key", line, pv.0), &mut fail)
                            }
                            _ => {}
                        }
                    }
                    match Request::parse(line) {
                        Ok(Request::ReplicateSet { db: pdb, key: pkey, value: pvalue, .. }) => {
                            if pdb != db || pkey != key || pvalue != value {
                                let cls = if value.contains(' ') { "multi-word-value" } else if value.is_empty() { "empty-value" } else { "single-word-value" };
                                let _ = cls;
                                judge("C05|sync-message-does-not-round-trip".to_string(), format!("the primary sent {:?} for value {:?}; the receiver's parser reads it as value {:?}", line, value, pvalue), &mut fail);
                            }
                        }
                        other => judge("C05|sync-message-does-not-parse".to_string(), format!("{:?} -> {:?}", line, other), &mut fail),
                    }
                }
                if let Some(rest) = line.strip_prefix("create-db ") {
                    created_in_stream.insert(rest.split(' ').next().unwrap_or("").to_string());
                }
                if line.starts_with("create-db ") {
                    full_sync = full_sync || false; // (a create-db line alone says nothing: incremental syncs replay create-db records too)
                }
            }
        }
    }
    // the joiner also answers its own replicate-since over the link it has to itself (from its own log, in the same
    // message format): those lines name keys too
    let named_by_primary = named.clone();
    for m in c.delivered[sync_mark..].iter() {
        if m.from == 1 && m.to == 1 && m.dir == "c2s" {
            let line = m.line.trim_end_matches('\n');
            if let Some(rest) = line.strip_prefix("replicate ").or_else(|| line.strip_prefix("replicate-remove ")) {
                let mut it = rest.splitn(3, ' ');
                named.insert((it.next().unwrap_or("").to_string(), it.next().unwrap_or("").to_string()));
            }
        }
    }
    for m in c.delivered[sync_mark..].iter() {
        if m.from == 0 && m.to == 1 && m.dir == "c2s" {
            if let Some(rest) = m.line.trim_end_matches('\n').strip_prefix("replicate-remove ") {
                let mut it = rest.splitn(2, ' ');
                named.insert((it.next().unwrap_or("").to_string(), it.next().unwrap_or("").to_string()));
            }
        }
    }
    if fail.is_none() && saw_sync_lines {
        let named = &named_by_primary;
        for (dbi, k) in away_updates.iter() {
            let db = format!("d{}", dbi);
            let live = primary_now.get(&db).and_then(|m| m.get(k)).map(|v| !v.2).unwrap_or(false);
            // (a key written again while the synchronisation was in flight travels as a live operation)
            if live && !named.contains(&(db.clone(), k.clone())) && !during_keys.contains(&(*dbi, k.clone())) {
                judge("C05|sync-omits-a-key-written-while-away".to_string(), format!("key {:?} of database {} was written while the joiner was away and is live on the primary, but no synchronisation message names it; named: {:?}", k, db, named), &mut fail);
            }
        }
    }
    // ---- the joiner equals the primary
    if fail.is_none() {
        let p = cluster_dump(&c, 0);
        let j = cluster_dump(&c, 1);
        for (db, pm) in p.iter() {
            let dbi: usize = db[1..].parse().unwrap_or(0);
            let created_away = away_creates.contains(&dbi);
            let jm = match j.get(db) {
                Some(m) => m,
                None => {
                    // when was it created? (the recorded finding is about the window of the rejoin itself)
                    let when = if during_keys.contains(&(dbi, "$create".to_string())) {
                        "created-during-the-rejoin"
                    } else if created_away {
                        "created-while-the-joiner-was-away"
                    } else {
                        "existed-before-the-joiner-left"
                    };
                    let empty = pm.keys().all(|k| k.starts_with('$'));
                    // a joiner that restarts with its op-log but without ever having snapshotted its databases has lost
                    // them and still asks for an incremental synchronisation (C16-log-keeps-records-of-lost-databases)
                    // (a database created during the rejoin before the link to the joiner existed is backlog like one created
                    // while it was away: it has to come with the answer to replicate-since)
                    let when = if when == "created-while-the-joiner-was-away" && live_before_since {
                        "created-while-the-joiner-was-away|a-live-operation-reached-the-joiner-before-its-replicate-since"
                    } else if when == "created-during-the-rejoin" && live_before_since {
                        "created-during-the-rejoin|a-live-operation-reached-the-joiner-before-its-replicate-since"
                    } else {
                        when
                    };
                    let when = if !full_sync && lost_at_restart.contains(db) { "lost-by-the-joiner-at-its-restart-which-then-asked-for-an-incremental-sync" } else { when };
                    let sig = if when.ends_with("a-live-operation-reached-the-joiner-before-its-replicate-since") {
                        // the same missed backlog as for keys
                        "C05|joiner-differs|backlog-not-sent|no-sync-message|a-live-operation-reached-the-joiner-before-its-replicate-since".to_string()
                    } else if when.starts_with("lost-by-the-joiner") {
                        format!("C05|database-missing|{}", when)
                    } else {
                        format!("C05|database-missing|{}|{}", when, if empty { "database-without-keys" } else { "database-with-keys" })
                    };
                    judge(sig, format!("database {} exists on the primary, not on the joiner", db), &mut fail);
                    continue;
                }
            };
            // strategy
            let strat = |i: usize| c.nodes[i].node.as_ref().unwrap().dbs.map.read().unwrap().get(db).map(|d| d.metadata.consensus_strategy.to_string()).unwrap_or_default();
            if strat(0) != strat(1) {
                judge("C05|strategy-differs".to_string(), format!("database {}: strategy {} on the primary, {} on the joiner", db, strat(0), strat(1)), &mut fail);
            }
            if std::env::var("NV_C05_DEBUG").is_ok() {
                eprintln!("  dump {} primary {:?}\n  dump {} joiner  {:?}", db, pm, db, jm);
            }
            let mut keys: Vec<&String> = pm.keys().chain(jm.keys()).collect();
            keys.sort();
            keys.dedup();
            for k in keys {
                let absent = (String::new(), 0, true);
                let (pv, jv) = (pm.get(k).unwrap_or(&absent), jm.get(k).unwrap_or(&absent));
                if pv == jv {
                    continue;
                }
                let id = (dbi, k.clone());
                let class = if k == "$$token" {
                    "token"
                } else if during_keys.contains(&id) {
                    "written-during-sync"
                } else if away_removes.contains(&id) {
                    "removed-while-away"
                } else if away_updates.contains(&id) || created_away {
                    "updated-while-away"
                } else {
                    "not-touched-while-away"
                };
                // direction matters: the synchronisation cannot carry removes (key gone on the primary, still live on the
                // joiner) is one thing; a key that is live on the primary and absent on the joiner, or live on the joiner
                // although the primary never had it, is another
                let what = if pv.2 != jv.2 {
                    if pv.2 && !pm.contains_key(k) {
                        "key-only-on-the-joiner"
                    } else if pv.2 {
                        "removed-on-the-primary-live-on-the-joiner"
                    } else {
                        "live-on-the-primary-missing-on-the-joiner"
                    }
                } else if pv.0 != jv.0 {
                    "value"
                } else {
                    "version"
                };
                let what = if class == "token" { "token" } else { what };
                // why: was this key named by a synchronisation message at all?
                let was_named = named.contains(&(db.clone(), k.clone()));
                let why = if was_named {
                    "a-sync-message-named-the-key"
                } else if live_before_since {
                    "no-sync-message|a-live-operation-reached-the-joiner-before-its-replicate-since"
                } else if during_keys.contains(&id) {
                    "no-sync-message|written-during-the-synchronisation"
                } else {
                    "no-sync-message"
                };
                // (the missed backlog shows as missing, stale or still-live keys alike: one root cause, one signature)
                let what = if why.starts_with("no-sync-message|a-live-operation") { "backlog-not-sent" } else { what };
                judge(format!("C05|joiner-differs|{}|{}", what, why), format!("[{} {}] ", class, if full_sync { "full-sync" } else { "incremental-sync" }) + &format!("database {} key {:?}: primary {:?}, joiner {:?} (leave={}, disk={}, joiner snapshot={})", db, k, pv, jv, case.leave, case.disk, case.joiner_snapshots), &mut fail);
            }
        }
    }
    let nontrivial = (!away_updates.is_empty() && !away_removes.is_empty()) || !away_creates.is_empty();
    drop(c);
    ctx.drop_dir(&scratch);
    let mut out = Outcome::ok(nontrivial);
    if full_sync {
        out.classes.push("full-sync");
    } else {
        out.classes.push("incremental-sync");
    }
    if !away_creates.is_empty() {
        out.classes.push("database-created-while-away");
    }
    out.known_image_hits = known_hits;
    out.fail = fail;
    out
}

/// every "while away" script of 1-3 letters over {create d1, set d1.a, set d0.a, remove d0.a, snapshot d1, snapshot d0,
/// increment d0.n}, for a joiner that snapshotted d0 before it left (so that it comes back with its database and asks
/// for an incremental synchronisation), clean and killed departure
fn away_scripts(max_len: usize) -> Vec<Case> {
    let letters: Vec<Cmd> = vec![
        Cmd::CreateDb { db: 1, strategy: "newer".into() },
        Cmd::Set { db: 1, k: "a".into(), v: "x".into() },
        Cmd::Set { db: 0, k: "a".into(), v: "y".into() },
        Cmd::Remove { db: 0, k: "a".into() },
        Cmd::Snapshot { db: 1 },
        Cmd::Snapshot { db: 0 },
        Cmd::Inc { db: 0 },
    ];
    let mut out = vec![];
    let n = letters.len();
    for len in 1..=max_len {
        for mut i in 0..n.pow(len as u32) {
            let mut away = vec![];
            for _ in 0..len {
                away.push(letters[i % n].clone());
                i /= n;
            }
            for leave in ["clean", "kill"] {
                out.push(Case { before: vec![Cmd::Snapshot { db: 0 }], away: away.clone(), during: vec![], leave: leave.to_string(), disk: "kept".to_string(), joiner_snapshots: true, schedule: vec![], primary_restarts: false, primary_killed: false, resolved_conflict_while_away: None });
                if len <= 2 {
                    out.push(Case { before: vec![Cmd::Snapshot { db: 0 }], away: away.clone(), during: vec![], leave: leave.to_string(), disk: "kept".to_string(), joiner_snapshots: true, schedule: vec![], primary_restarts: true, primary_killed: false, resolved_conflict_while_away: None });
                }
                if len <= 2 {
                    // the primary is KILLED while the joiner is away, with a key registered since its last key-map
                    // snapshot: its start-up discards the op-log and the keys map and loads d0 from its snapshot; the keys
                    // written before have no id when the away script touches them
                    out.push(Case { before: vec![Cmd::Set { db: 0, k: "a".into(), v: "x".into() }, Cmd::Snapshot { db: 0 }, Cmd::Set { db: 0, k: "b".into(), v: "x".into() }], away: away.clone(), during: vec![], leave: leave.to_string(), disk: "kept".to_string(), joiner_snapshots: true, schedule: vec![], primary_restarts: true, primary_killed: true, resolved_conflict_while_away: None });
                }
                if len == 1 {
                    // an arbiter database that exists (and is on both disks) before the joiner leaves; while it is away a
                    // conflict on one of its keys is resolved
                    out.push(Case { before: vec![Cmd::CreateDb { db: 2, strategy: "arbiter".into() }, Cmd::Set { db: 2, k: "a".into(), v: "x".into() }, Cmd::Snapshot { db: 2 }, Cmd::Snapshot { db: 0 }], away: away.clone(), during: vec![], leave: leave.to_string(), disk: "kept".to_string(), joiner_snapshots: true, schedule: vec![], primary_restarts: false, primary_killed: false, resolved_conflict_while_away: Some(2) });
                }
            }
        }
    }
    out
}

pub fn run(ctx: &Ctx, rep: &mut Report) {
    enumerate(ctx, rep, "away-scripts", away_scripts(ctx.amount(3, 4) as usize).into_iter(), |c| run_case(ctx, c));
    if !rep.failures.is_empty() {
        return;
    }
    let n = ctx.amount(1600, 40_000);
    explore_with(ctx, rep, "rejoin-histories", n, 200, case_strategy(), |c| run_case(ctx, c));
}

pub fn replay(ctx: &Ctx, _engine: &str, case: &J) -> Result<Option<(String, String)>, String> {
    replay_guarded::<Case>(ctx, case, |c| run_case(ctx, c))
}
