//! C13 — arbiter databases never apply or lose a conflicting write silently (single-node part).
use crate::node::{is_refusal, resp_text, Node, Session};
use crate::report::{enumerate, explore, replay_guarded, Ctx, Outcome, Report};
use nundb::bo::Response;
use proptest::prelude::*;

use serde::{Deserialize, Serialize};
use serde_json::Value as J;
use std::collections::BTreeMap;

// (indices 3..6 are used by the family odd-key-names only: a name with `*` inside and at its end, the empty name, a name
// that contains the prefix of the conflict records)
pub const KEYS: [&str; 6] = ["a", "ab", "a_b", "a*b*", "", "n$conflicts_w"];
const KEYS_OLD: [&str; 3] = ["a", "ab", "a_b"]; // related on purpose: prefix, and prefix + underscore (conflict records are named $conflicts_<key>_<id>)

#[derive(Clone, Debug, Serialize, Deserialize, PartialEq)]
pub enum Step {
    PlainSet { k: usize },
    /// versioned write with the version get-safe reports (not stale)
    SetSafeFresh { k: usize },
    /// versioned write with an older version (conflicts)
    SetSafeStale { k: usize },
    /// `remove` of a key that has a conflict waiting (sent only then): a later write like any other, it has to queue
    RemoveInConflict { k: usize },
    ArbiterConnect { a: usize },
    ArbiterDisconnect { a: usize },
    /// arbiter `a` answers an outstanding notice: which = 0 oldest, 1 newest, 2 middle; accept = take the new value
    Resolve { a: usize, which: u8, accept: bool },
}

#[derive(Clone, Debug, Serialize, Deserialize)]
pub struct Case {
    pub steps: Vec<Step>,
}

pub fn step_strategy() -> impl Strategy<Value = Step> {
    let k = 0..3usize;
    let a = 0..2usize;
    prop_oneof![
        2 => k.clone().prop_map(|k| Step::PlainSet { k }),
        2 => k.clone().prop_map(|k| Step::SetSafeFresh { k }),
        4 => k.clone().prop_map(|k| Step::SetSafeStale { k }),
        1 => k.prop_map(|k| Step::RemoveInConflict { k }),
        3 => a.clone().prop_map(|a| Step::ArbiterConnect { a }),
        1 => a.clone().prop_map(|a| Step::ArbiterDisconnect { a }),
        4 => (a, 0..3u8, any::<bool>()).prop_map(|(a, which, accept)| Step::Resolve { a, which, accept }),
    ]
}

#[derive(Clone, Debug)]
pub struct Notice {
    pub opp_id: u64,
    pub key: String,
    pub version: i32,
    pub new_value: String,
    pub text: String,
}

pub fn parse_notice(line: &str) -> Option<Notice> {
    // resolve <opp_id> <db> <version> <key> <old value or conflict key> <value>
    let t: Vec<&str> = line.trim_end().split(' ').collect();
    if t.len() < 7 || t[0] != "resolve" {
        return None;
    }
    Some(Notice { opp_id: t[1].parse().ok()?, key: t[4].to_string(), version: t[3].parse().ok()?, new_value: t[6..].join(" "), text: line.to_string() })
}

#[derive(Default)]
struct KeyM {
    value: String,
    pending: Vec<Notice>,
    last_resolution: Option<String>,
}

pub struct World {
    pub node: Node,
    pub client: Session,
    pub admin: Session,
    pub arbiters: Vec<Option<Session>>,
    keys: BTreeMap<String, KeyM>,
    arbiter_ever: bool,
    counter: u32,
    pub max_queue: usize,
    pub reconnect_while_pending: bool,
}

pub fn new_world(dir: &str) -> World {
    let mut node = Node::boot_single(dir);
    let mut admin = Session::new();
    admin.auth(&node);
    admin.send(&node, "create-db d tok arbiter");
    admin.send(&node, "use-db d tok");
    let mut client = Session::new();
    client.send(&node, "use-db d tok");
    let mut keys = BTreeMap::new();
    for k in KEYS {
        // two writes so that version 0 is stale
        client.send(&node, &format!("set {} init-{}", k, k));
        client.send(&node, &format!("set {} base-{}", k, k));
        keys.insert(k.to_string(), KeyM { value: format!("base-{}", k), ..Default::default() });
    }
    node.pump();
    World { node, client, admin, arbiters: vec![None, None], keys, arbiter_ever: false, counter: 0, max_queue: 0, reconnect_while_pending: false }
}

fn get_safe(s: &mut Session, node: &Node, k: &str) -> (String, i32) {
    match s.send(node, &format!("get-safe {}", k)).0 {
        Response::Value { value, version, .. } => (value, version),
        r => panic!("get-safe refused: {}", resp_text(&r)),
    }
}

fn unresolved_on_server(w: &mut World) -> Vec<String> {
    let (r, _) = w.admin.send(&w.node, "keys $conflicts_");
    let names: Vec<String> = match r {
        // (`keys` matches by contains: the records are the names that START with the prefix)
        Response::Value { value, .. } => value.split(',').filter(|s| s.starts_with("$conflicts_")).map(|s| s.to_string()).collect(),
        _ => vec![],
    };
    let mut out = vec![];
    for n in names {
        if let (Response::Value { value, .. }, _) = w.admin.send(&w.node, &format!("get {}", n)) {
            if !value.starts_with("resolved") && value != "<Empty>" {
                out.push(n);
            }
        }
    }
    out
}

pub fn step(w: &mut World, st: &Step) -> Option<(String, String)> {
    w.counter += 1;
    let uniq = format!("v{}", w.counter);
    match st {
        Step::PlainSet { k } | Step::SetSafeFresh { k } | Step::SetSafeStale { k } => {
            let key = KEYS[*k];
            let (val_before, ver_before) = get_safe(&mut w.client, &w.node, key);
            let in_conflict = !w.keys[key].pending.is_empty();
            let (line, conflicting, kind) = match st {
                Step::PlainSet { .. } => (format!("set {} {}", key, uniq), in_conflict, "plain"),
                Step::SetSafeFresh { .. } => (format!("set-safe {} {} {}", key, ver_before.max(0), uniq), in_conflict, "fresh"),
                _ => (format!("set-safe {} 0 {}", key, uniq), true, "stale"),
            };
            let (r, _) = w.client.send(&w.node, &line);
            w.node.pump();
            let (val_after, _ver_after) = get_safe(&mut w.client, &w.node, key);
            let state = if in_conflict { "key-in-conflict" } else { "key-clean" };
            if !conflicting {
                if is_refusal(&r) {
                    return Some((format!("C13|non-conflicting-write-refused|{}|{}", kind, state), format!("{:?} on {:?}@{} refused: {}", line, val_before, ver_before, resp_text(&r))));
                }
                if val_after != uniq {
                    return Some((format!("C13|non-conflicting-write-not-applied|{}", kind), format!("{:?}: value afterwards {:?}", line, val_after)));
                }
                w.keys.get_mut(key).unwrap().value = uniq;
                return None;
            }
            // a conflicting write is never applied silently and never dropped silently
            let msg = match &r {
                Response::Error { msg } => msg.clone(),
                r => return Some((format!("C13|conflicting-write-not-refused|{}|{}", kind, state), format!("{:?} on {:?}@{} (in conflict: {}) -> {}", line, val_before, ver_before, in_conflict, resp_text(r)))),
            };
            if !w.arbiter_ever {
                // no arbiter has ever registered: plain refusal, nothing recorded
                if val_after != val_before {
                    return Some(("C13|refused-conflict-changed-key".into(), format!("{:?}: value {:?} -> {:?}", line, val_before, val_after)));
                }
                return None;
            }
            if val_after != w.keys[key].value && w.keys[key].pending.is_empty() {
                return Some((format!("C13|conflicting-write-changed-key|{}", state), format!("{:?}: the key held {:?} before the conflict, now {:?}", line, w.keys[key].value, val_after)));
            }
            // recorded under a $conflicts_ key named in the reply
            let ckey = match msg.split(' ').find(|t| t.starts_with("$conflicts_")) {
                Some(c) => c.to_string(),
                None => return Some((format!("C13|conflict-not-recorded|{}", state), format!("{:?}: error does not name a $conflicts_ key: {:?}", line, msg))),
            };
            let (rec, _) = w.admin.send(&w.node, &format!("get {}", ckey));
            let recorded = match rec {
                Response::Value { value, .. } => value,
                _ => String::new(),
            };
            let notice = match parse_notice(&recorded) {
                Some(n) if n.key == key && n.new_value == uniq => n,
                _ => return Some((format!("C13|conflict-not-recorded|{}", state), format!("{:?}: {} holds {:?}", line, ckey, recorded))),
            };
            // delivered to every connected arbiter now
            for (ai, a) in w.arbiters.iter_mut().enumerate() {
                if let Some(s) = a {
                    let inbox: Vec<Notice> = s.drain().iter().filter_map(|l| parse_notice(l)).collect();
                    if !inbox.iter().any(|n| n.opp_id == notice.opp_id) {
                        return Some((format!("C13|notice-not-delivered|{}", state), format!("{:?}: connected arbiter {} did not receive the notice {:?}; it received {:?}", line, ai, notice.text, inbox.iter().map(|n| n.text.clone()).collect::<Vec<_>>())));
                    }
                }
            }
            let km = w.keys.get_mut(key).unwrap();
            km.pending.push(notice);
            w.max_queue = w.max_queue.max(km.pending.len());
            None
        }
        Step::RemoveInConflict { k } => {
            let key = KEYS[*k];
            if w.keys[key].pending.is_empty() {
                return None;
            }
            let (val_before, ver_before) = get_safe(&mut w.client, &w.node, key);
            let (r, _) = w.client.send(&w.node, &format!("remove {}", key));
            w.node.pump();
            let (val_after, ver_after) = get_safe(&mut w.client, &w.node, key);
            if (val_after.clone(), ver_after) != (val_before.clone(), ver_before) {
                return Some(("C13|later-write-did-not-queue|remove".into(), format!("remove {} while a conflict on it waits for the arbiter -> {}: the key went {:?}@{} -> {:?}@{} at once instead of waiting behind the conflict", key, resp_text(&r), val_before, ver_before, val_after, ver_after)));
            }
            None
        }
        Step::ArbiterConnect { a } => {
            if w.arbiters[*a].is_some() {
                return None;
            }
            let mut s = Session::new();
            s.send(&w.node, "use-db d tok");
            let (r, first) = s.send(&w.node, "arbiter");
            w.node.pump();
            if is_refusal(&r) {
                return Some(("C13|arbiter-refused".into(), resp_text(&r)));
            }
            w.arbiter_ever = true;
            let lines: Vec<String> = first.iter().cloned().chain(s.drain().into_iter()).collect();
            if let Some(stray) = lines.iter().find(|l| parse_notice(l).is_none()) {
                return Some(("C13|new-arbiter-inbox|sent-something-that-is-no-conflict-notice".into(), format!("a newly registered arbiter received {:?}: not the notice of an unresolved conflict (all it received: {:?})", stray, lines)));
            }
            let mut got: Vec<u64> = lines.iter().filter_map(|l| parse_notice(l)).map(|n| n.opp_id).collect();
            got.sort();
            let mut want: Vec<u64> = w.keys.values().flat_map(|k| k.pending.iter().map(|n| n.opp_id)).collect();
            want.sort();
            if !want.is_empty() {
                w.reconnect_while_pending = true;
            }
            if got != want {
                let kind = if got.len() < want.len() { "missing" } else if got.iter().any(|g| !want.contains(g)) { "resolved-or-unknown-resent" } else { "duplicated" };
                return Some((format!("C13|new-arbiter-inbox|{}", kind), format!("a newly registered arbiter received notices {:?}, unresolved conflicts are {:?}", got, want)));
            }
            // the other arbiters may have been sent the backlog again: not judged
            for (i, o) in w.arbiters.iter_mut().enumerate() {
                if i != *a {
                    if let Some(o) = o {
                        o.drain();
                    }
                }
            }
            w.arbiters[*a] = Some(s);
            None
        }
        Step::ArbiterDisconnect { a } => {
            if let Some(mut s) = w.arbiters[*a].take() {
                if let Err(e) = s.disconnect(&w.node) {
                    return Some(("C13|arbiter-disconnect-panicked".into(), e));
                }
            }
            None
        }
        Step::Resolve { a, which, accept } => {
            if w.arbiters[*a].is_none() {
                return None;
            }
            // outstanding notices over all keys, oldest first
            let mut all: Vec<Notice> = w.keys.values().flat_map(|k| k.pending.iter().cloned()).collect();
            all.sort_by_key(|n| n.opp_id);
            if all.is_empty() {
                return None;
            }
            let n = match which {
                0 => all[0].clone(),
                1 => all[all.len() - 1].clone(),
                _ => all[all.len() / 2].clone(),
            };
            let value = if *accept { n.new_value.clone() } else { format!("arb-{}", uniq) };
            let line = format!("resolve {} d {} {} {}", n.opp_id, n.key, n.version, value);
            let s = w.arbiters[*a].as_mut().unwrap();
            let (r, _) = s.send(&w.node, &line);
            w.node.pump();
            if is_refusal(&r) {
                return Some(("C13|resolve-refused".into(), format!("{:?} -> {}", line, resp_text(&r))));
            }
            let other_key_pending = w.keys.iter().any(|(k, m)| *k != n.key && !m.pending.is_empty());
            let km = w.keys.get_mut(&n.key).unwrap();
            km.pending.retain(|p| p.opp_id != n.opp_id);
            km.last_resolution = Some(value.clone());
            let remaining_here = km.pending.len();
            if remaining_here == 0 {
                km.value = value.clone();
                // every queued conflict of this key is resolved: value of the last resolution, writable again
                let (val, ver) = get_safe(&mut w.client, &w.node, &n.key);
                let ctx_cls = if other_key_pending { "other-prefix-related-key-still-pending" } else { "nothing-else-pending" };
                if val != value {
                    return Some((format!("C13|resolved-key-wrong-value|{}", ctx_cls), format!("after {:?} (last outstanding notice of {}): the key holds {:?}", line, n.key, val)));
                }
                if ver < 0 {
                    return Some((format!("C13|resolved-key-still-in-conflict|{}", ctx_cls), format!("after {:?} (last outstanding notice of {}): get-safe version is {} (in-conflict marker), pending elsewhere: {}", line, n.key, ver, other_key_pending)));
                }
            }
            // nothing resolved may stay listed as unresolved
            let unresolved = unresolved_on_server(w);
            let want: Vec<String> = w.keys.iter().flat_map(|(k, m)| m.pending.iter().map(move |p| format!("$conflicts_{}_{}", k, p.opp_id))).collect();
            for u in unresolved.iter() {
                if !want.contains(u) {
                    return Some(("C13|resolved-conflict-still-unresolved".into(), format!("after {:?}: {} is still recorded as unresolved; model pending {:?}", line, u, want)));
                }
            }
            for wnt in want.iter() {
                if !unresolved.contains(wnt) {
                    return Some(("C13|pending-conflict-lost".into(), format!("after {:?}: {} should still be unresolved; server lists {:?}", line, wnt, unresolved)));
                }
            }
            None
        }
    }
}

pub fn run_case(ctx: &Ctx, case: &Case) -> Outcome {
    let dir = ctx.fresh_dir();
    let mut w = new_world(&dir);
    let mut fail = None;
    for (i, st) in case.steps.iter().enumerate() {
        if let Some((sig, d)) = step(&mut w, st) {
            fail = Some((sig, format!("step {} {:?}: {}", i, st, d)));
            break;
        }
    }
    let nontrivial = w.max_queue >= 2 || w.reconnect_while_pending;
    let (mq, rc) = (w.max_queue, w.reconnect_while_pending);
    drop(w);
    ctx.drop_dir(&dir);
    let mut out = Outcome::ok(nontrivial);
    if mq >= 2 {
        out.classes.push("two-or-more-conflicts-queued-on-a-key");
    }
    if rc {
        out.classes.push("arbiter-connects-while-conflict-pending");
    }
    out.fail = fail;
    out
}

fn alphabet() -> Vec<Step> {
    vec![
        Step::PlainSet { k: 0 },
        Step::SetSafeStale { k: 0 },
        Step::SetSafeStale { k: 1 },
        Step::SetSafeStale { k: 2 },
        Step::SetSafeFresh { k: 0 },
        Step::ArbiterConnect { a: 0 },
        Step::ArbiterConnect { a: 1 },
        Step::ArbiterDisconnect { a: 0 },
        Step::Resolve { a: 0, which: 0, accept: true },
        Step::Resolve { a: 0, which: 1, accept: false },
    ]
}

fn odd_alphabet(k: usize) -> Vec<Step> {
    vec![
        Step::PlainSet { k },
        Step::SetSafeStale { k },
        Step::SetSafeFresh { k },
        Step::ArbiterConnect { a: 0 },
        Step::ArbiterConnect { a: 1 },
        Step::Resolve { a: 0, which: 0, accept: true },
        Step::Resolve { a: 0, which: 1, accept: false },
    ]
}

fn sequences(alpha: &[Step], len: usize) -> impl Iterator<Item = Case> + '_ {
    let n = alpha.len();
    let total = n.pow(len as u32);
    (0..total).map(move |mut i| {
        let mut steps = Vec::with_capacity(len);
        for _ in 0..len {
            steps.push(alpha[i % n].clone());
            i /= n;
        }
        Case { steps }
    })
}

// ------------------------------------------------------------------ a conflict on a removed key
// A key that was stored by a snapshot and then removed is still known to the node (with its version): a stale versioned
// write to it conflicts. While the conflict waits the key is what it was before: removed.

#[derive(Clone, Debug, Serialize, Deserialize)]
pub struct RemovedCase {
    /// the key reached the disk before it was removed
    pub snapshot_before_remove: bool,
    /// the arbiter takes the new value (or answers with a value of its own)
    pub accept: bool,
    pub k: usize,
}

pub fn run_removed(ctx: &Ctx, case: &RemovedCase) -> Outcome {
    let dir = ctx.fresh_dir();
    let mut w = new_world(&dir);
    let key = KEYS[case.k];
    let mut out = Outcome::ok(case.snapshot_before_remove);
    out.classes.push("conflict-on-a-removed-key");
    let mut arb = Session::new();
    arb.send(&w.node, "use-db d tok");
    arb.send(&w.node, "arbiter");
    arb.drain();
    if case.snapshot_before_remove {
        w.admin.send(&w.node, "snapshot false");
        w.node.pump();
        w.node.snapshot_tick();
    }
    w.client.send(&w.node, &format!("remove {}", key));
    w.node.pump();
    let list = |w: &mut World| -> String {
        match w.client.send(&w.node, "keys a").0 {
            // (without the conflict records, which are keys of their own)
            Response::Value { value, .. } => value.split(',').filter(|k| !k.is_empty() && !k.starts_with("$conflicts_")).collect::<Vec<_>>().join(","),
            r => resp_text(&r),
        }
    };
    let listed_before = list(&mut w);
    let (r, _) = w.client.send(&w.node, &format!("set-safe {} 0 late", key));
    w.node.pump();
    let notices: Vec<Notice> = arb.drain().iter().filter_map(|l| parse_notice(l)).collect();
    if !is_refusal(&r) {
        // not a conflict on this node (the key was forgotten with the remove): an ordinary write to an absent key
        drop(w);
        ctx.drop_dir(&dir);
        out.nontrivial = false;
        return out;
    }
    let listed_after = list(&mut w);
    let got = match w.client.send(&w.node, &format!("get {}", key)).0 {
        Response::Value { value, .. } => value,
        r => resp_text(&r),
    };
    if listed_after != listed_before || got != "<Empty>" {
        out.fail = Some(("C13|removed-key|refused-conflicting-write-brought-the-key-back".to_string(), format!("{} was removed; `set-safe {} 0 late` was answered {} and is waiting for the arbiter; keys listed {:?} before and {:?} after, get answers {:?}", key, key, resp_text(&r), listed_before, listed_after, got)));
    } else if let Some(n) = notices.iter().find(|n| n.key == key) {
        let value = if case.accept { n.new_value.clone() } else { "arbiters-own".to_string() };
        let (r2, _) = arb.send(&w.node, &format!("resolve {} d {} {} {}", n.opp_id, key, n.version, value));
        w.node.pump();
        let now = match w.client.send(&w.node, &format!("get {}", key)).0 {
            Response::Value { value, .. } => value,
            r => resp_text(&r),
        };
        if is_refusal(&r2) || now != value {
            out.fail = Some(("C13|removed-key|resolution-not-applied".to_string(), format!("the arbiter answered the conflict on the removed key {} with {:?}: {}; get answers {:?}", key, value, resp_text(&r2), now)));
        }
    } else {
        out.fail = Some(("C13|removed-key|conflict-not-sent-to-the-arbiter".to_string(), format!("the conflicting write to the removed key {} was refused with {} but the registered arbiter received {:?}", key, resp_text(&r), notices.iter().map(|n| n.text.clone()).collect::<Vec<_>>())));
    }
    drop(w);
    ctx.drop_dir(&dir);
    out
}

// ------------------------------------------------------------------ conflicts among threads
// A conflicting write, the registration of a second arbiter, the first arbiter's answer to an older notice and the
// periodic snapshot step run as tasks of the baton scheduler (yield points before every map / watcher-list lock).

#[derive(Clone, Debug, Serialize, Deserialize, PartialEq)]
pub enum CTask {
    /// a client's stale versioned write to key a (it conflicts)
    Writer { n: u8 },
    /// a second arbiter sends `arbiter`
    NewArbiter,
    /// the first arbiter answers the notice of the conflict that waits since the prelude
    Resolver { accept: bool },
    /// the snapshot step (a snapshot of the database is queued)
    Snapshot { reclaim: bool },
}

#[derive(Clone, Debug, Serialize, Deserialize)]
pub struct CCase {
    pub tasks: Vec<CTask>,
    /// a conflict on key a waits for the arbiter before the tasks start
    pub pending_before: bool,
    pub schedule: Vec<u16>,
}

pub fn ccase_strategy() -> impl Strategy<Value = CCase> {
    let task = prop_oneof![
        3 => (1..3u8).prop_map(|n| CTask::Writer { n }),
        3 => Just(CTask::NewArbiter),
        2 => any::<bool>().prop_map(|accept| CTask::Resolver { accept }),
        2 => any::<bool>().prop_map(|reclaim| CTask::Snapshot { reclaim }),
    ];
    (prop::collection::vec(task, 2..4), any::<bool>(), prop::collection::vec(prop_oneof![2 => Just(0u16), 3 => any::<u16>()], 0..40)).prop_map(|(tasks, pending_before, schedule)| CCase { tasks, pending_before, schedule })
}

pub fn run_conc(ctx: &Ctx, case: &CCase) -> Outcome {
    use crate::sched;
    let dir = ctx.fresh_dir();
    let mut node = Node::boot_single(&dir);
    let mut admin = Session::new();
    admin.auth(&node);
    admin.send(&node, "create-db d tok arbiter");
    admin.send(&node, "use-db d tok");
    let mut client = Session::new();
    client.send(&node, "use-db d tok");
    client.send(&node, "set a init");
    client.send(&node, "set a base");
    client.send(&node, "set other x");
    let mut arb_a = Session::new();
    arb_a.send(&node, "use-db d tok");
    arb_a.send(&node, "arbiter");
    arb_a.drain();
    let mut first_notice: Option<Notice> = None;
    if case.pending_before {
        client.send(&node, "set-safe a 0 earlier");
        first_notice = arb_a.drain().iter().filter_map(|l| parse_notice(l)).next();
    }
    node.pump();
    let has_resolver = case.tasks.iter().any(|t| matches!(t, CTask::Resolver { .. })) && first_notice.is_some();
    let mut arb_b = Session::new();
    arb_b.send(&node, "use-db d tok");
    let mut has_new_arbiter = false;
    let mut tasks: Vec<Box<dyn FnOnce(&sched::TaskCtx) -> Vec<String> + Send>> = vec![];
    let mut writer_no = 0;
    let mut resolver_used = false;
    let mut snapshot_used = false;
    let mut arb_b_opt = Some(arb_b);
    let mut arb_a_client: Option<Session> = None;
    for t in case.tasks.iter() {
        let dbs = node.dbs.clone();
        match t {
            CTask::Writer { n } => {
                writer_no += 1;
                let (n, wn) = (*n, writer_no);
                let mut s = Session::new();
                s.send(&node, "use-db d tok");
                tasks.push(Box::new(move |t: &sched::TaskCtx| {
                    let mut out = vec![];
                    for i in 0..n {
                        t.pause("cmd");
                        let r = nundb::process_request::process_request(&format!("set-safe a 0 w{}x{}", wn, i), &dbs, &mut s.client);
                        out.push(resp_text(&r));
                    }
                    out
                }));
            }
            CTask::NewArbiter => {
                if let Some(mut b) = arb_b_opt.take() {
                    has_new_arbiter = true;
                    tasks.push(Box::new(move |t: &sched::TaskCtx| {
                        t.pause("cmd");
                        let r = nundb::process_request::process_request("arbiter", &dbs, &mut b.client);
                        let mut lines = b.drain();
                        lines.insert(0, format!("#reply {}", resp_text(&r)));
                        // the session stays open: what it is sent afterwards is read from the same receiver at the end
                        NEW_ARBITER.lock().unwrap().replace(b);
                        lines
                    }));
                }
            }
            CTask::Resolver { accept } => {
                if let (Some(n), false) = (first_notice.clone(), resolver_used) {
                    resolver_used = true;
                    let accept = *accept;
                    // a second session of the first arbiter's user answers (the registered one keeps listening)
                    let mut s = Session::new();
                    s.send(&node, "use-db d tok");
                    tasks.push(Box::new(move |t: &sched::TaskCtx| {
                        t.pause("cmd");
                        let value = if accept { n.new_value.clone() } else { "arbiters-own".to_string() };
                        let r = nundb::process_request::process_request(&format!("resolve {} d a {} {}", n.opp_id, n.version, value), &dbs, &mut s.client);
                        vec![resp_text(&r)]
                    }));
                }
            }
            CTask::Snapshot { reclaim } => {
                if !snapshot_used {
                    snapshot_used = true;
                    admin.send(&node, &format!("snapshot {}", reclaim));
                    node.pump();
                    let dir2 = dir.clone();
                    tasks.push(Box::new(move |t: &sched::TaskCtx| {
                        t.pause("cmd");
                        crate::node::use_dir(&dir2);
                        nundb::disk_ops::snapshot_all_pendding_dbs(&dbs);
                        vec![]
                    }));
                }
            }
        }
    }
    let _ = &mut arb_a_client;
    NEW_ARBITER.lock().unwrap().take();
    let run = sched::run(tasks, &case.schedule, sched::lock_sites);
    let (results, info) = match run {
        Ok(x) => x,
        Err(e) => {
            eprintln!("C13: scheduler watchdog: {}", e);
            std::process::exit(2);
        }
    };
    node.pump();
    let mut fail: Option<(String, String)> = None;
    for r in results.iter() {
        if let Err(p) = r {
            fail = Some((format!("C13|threads|a-handler-panicked|{}", if p.contains("unwrap") { "unwrap-on-a-record-that-is-gone" } else { "other" }), format!("{}; trace {:?}", p, info.trace)));
        }
    }
    // what is unresolved on the server at the end
    let mut unresolved: Vec<(String, String)> = vec![];
    if fail.is_none() {
        if let (Response::Value { value, .. }, _) = admin.send(&node, "keys $conflicts_") {
            for n in value.split(',').filter(|s| s.starts_with("$conflicts_")) {
                if let (Response::Value { value, .. }, _) = admin.send(&node, &format!("get {}", n)) {
                    if !value.starts_with("resolved") && value != "<Empty>" {
                        unresolved.push((n.to_string(), value));
                    }
                }
            }
        }
        // every arbiter that is registered has been sent every unresolved notice
        let a_lines = arb_a.drain();
        let mut seen_a: Vec<String> = a_lines.iter().map(|l| l.trim_end().to_string()).collect();
        if let Some(n) = &first_notice {
            seen_a.push(n.text.trim_end().to_string());
        }
        for (name, text) in unresolved.iter() {
            if !seen_a.iter().any(|l| l == text.trim_end()) {
                fail = Some(("C13|threads|unresolved-conflict-never-sent-to-the-registered-arbiter".to_string(), format!("{} = {:?} is unresolved, the arbiter that was registered all along received {:?}; trace {:?}", name, text, seen_a, info.trace)));
            }
        }
        if let (true, Some(mut b)) = (has_new_arbiter, NEW_ARBITER.lock().unwrap().take()) {
            let mut seen_b: Vec<String> = b.drain().iter().map(|l| l.trim_end().to_string()).collect();
            for r in results.iter().flatten() {
                for l in r.iter().filter(|l| l.starts_with("resolve ")) {
                    seen_b.push(l.trim_end().to_string());
                }
            }
            for (name, text) in unresolved.iter() {
                if !seen_b.iter().any(|l| l == text.trim_end()) && fail.is_none() {
                    fail = Some(("C13|threads|unresolved-conflict-never-sent-to-the-arbiter-that-registered-meanwhile".to_string(), format!("{} = {:?} is unresolved; the arbiter that registered while the conflict happened received {:?}; trace {:?}", name, text, seen_b, info.trace)));
                }
            }
        }
        // the key waits for the arbiter exactly while something is unresolved, with its pre-conflict value
        let (val, ver) = get_safe(&mut admin, &node, "a");
        let waiting = unresolved.iter().any(|(n, _)| n.starts_with("$conflicts_a_"));
        if fail.is_none() && waiting && ver != -2 {
            fail = Some(("C13|threads|key-left-conflict-resolution-with-a-conflict-unresolved".to_string(), format!("unresolved {:?} but key a is ({:?}, {}): later writes would be applied instead of queued; trace {:?}", unresolved, val, ver, info.trace)));
        }
        if fail.is_none() && !waiting && ver == -2 {
            fail = Some(("C13|threads|key-still-in-conflict-resolution-with-nothing-unresolved".to_string(), format!("nothing unresolved but key a is ({:?}, {}); trace {:?}", val, ver, info.trace)));
        }
    }
    let _ = has_resolver;
    drop(node);
    ctx.drop_dir(&dir);
    let mut out = Outcome::ok(info.switches > 0);
    if info.switches > 0 {
        out.classes.push("conflict-tasks-interleaved");
    }
    out.counters.push(("c13_context_switches", info.switches));
    out.fail = fail;
    out
}

static NEW_ARBITER: std::sync::Mutex<Option<Session>> = std::sync::Mutex::new(None);

pub fn run(ctx: &Ctx, rep: &mut Report) {
    crate::interpose::virtual_clock(true);
    let n = ctx.amount(100_000, 600_000);
    explore(ctx, rep, "single-node", n, prop::collection::vec(step_strategy(), 1..10).prop_map(|steps| Case { steps }), |c| run_case(ctx, c));
    let alpha = alphabet();
    let max_len = ctx.amount(4, 6) as usize;
    for len in 1..=max_len {
        if !rep.failures.is_empty() {
            break;
        }
        enumerate(ctx, rep, &format!("exhaustive-len{}", len), sequences(&alpha, len), |c| run_case(ctx, c));
    }
    for k in 3..6 {
        let alpha = odd_alphabet(k);
        for len in 1..=(ctx.amount(4, 5) as usize) {
            if !rep.failures.is_empty() {
                break;
            }
            enumerate(ctx, rep, &format!("odd-key-names-{}-len{}", k, len), sequences(&alpha, len), |c| run_case(ctx, c));
        }
    }
    if rep.failures.is_empty() {
        let mut cases = vec![];
        for snapshot_before_remove in [true, false] {
            for accept in [true, false] {
                for k in 0..3 {
                    cases.push(RemovedCase { snapshot_before_remove, accept, k });
                }
            }
        }
        enumerate(ctx, rep, "conflict-on-a-removed-key", cases.into_iter(), |c| run_removed(ctx, c));
    }
    if rep.failures.is_empty() {
        let n2 = ctx.amount(12_000, 200_000);
        explore(ctx, rep, "conflicts-among-threads", n2, ccase_strategy(), |c| run_conc(ctx, c));
    }

}

pub fn replay(ctx: &Ctx, _engine: &str, case: &J) -> Result<Option<(String, String)>, String> {
    crate::interpose::virtual_clock(true);
    if _engine == "conflict-on-a-removed-key" {
        return replay_guarded::<RemovedCase>(ctx, case, |c| run_removed(ctx, c));
    }
    if _engine == "conflicts-among-threads" {
        return replay_guarded::<CCase>(ctx, case, |c| run_conc(ctx, c));
    }
    replay_guarded::<Case>(ctx, case, |c| run_case(ctx, c))
}
