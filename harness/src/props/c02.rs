//! C02 — set-safe is an atomic compare-and-set; versions only grow; no lost update.
use crate::node::{is_refusal, resp_text, Node, Session};
use crate::report::{enumerate, explore, replay_guarded, Ctx, Outcome, Report};
use crate::sched;
use nundb::bo::Response;
use proptest::prelude::*;
use proptest::sample::select;
use serde::{Deserialize, Serialize};
use serde_json::Value as J;
use std::collections::BTreeMap;

// ------------------------------------------------------------------------------------------------
// sequential part
// ------------------------------------------------------------------------------------------------

#[derive(Clone, Debug, Serialize, Deserialize, PartialEq)]
pub enum V {
    Abs(i32),
    /// current version (as get-safe reports it) + delta
    Rel(i32),
}

#[derive(Clone, Debug, Serialize, Deserialize, PartialEq)]
pub enum Op {
    Set { k: String, v: String },
    SetSafe { k: String, ver: V, v: String },
    Inc { k: String, n: i32 },
    Remove { k: String },
    Snapshot { reclaim: bool },
    /// `resolve 7 d <key> <version> <value>` from the client (the database has no conflict strategy and no arbiter); with
    /// record_first the client has written a key that looks like a conflict record of that key (`$conflicts_<key>_1`)
    /// before. It may be refused (and then changes nothing) or be a mutation like the others
    Resolve { k: String, ver: V, v: String, record_first: bool },
}

#[derive(Clone, Debug, Serialize, Deserialize)]
pub struct Case {
    pub ops: Vec<Op>,
}

fn op_strategy() -> impl Strategy<Value = Op> {
    let k = select(vec!["a", "b"]).prop_map(|s| s.to_string());
    let v = select(vec!["x", "7", "", "two words", "-3", "2147483646", "-2147483647"]).prop_map(|s| s.to_string());
    let ver = prop_oneof![
        3 => select(vec![-1, 0, 1, 2, -2, -3, 2147483646, 2147483647, i32::MIN]).prop_map(V::Abs),
        5 => select(vec![0, -1, 1, 2, -2, 100]).prop_map(V::Rel),
    ];
    prop_oneof![
        3 => (k.clone(), v.clone()).prop_map(|(k, v)| Op::Set { k, v }),
        6 => (k.clone(), ver, v).prop_map(|(k, ver, v)| Op::SetSafe { k, ver, v }),
        2 => (k.clone(), select(vec![1, -1, 5])).prop_map(|(k, n)| Op::Inc { k, n }),
        2 => k.clone().prop_map(|k| Op::Remove { k }),
        1 => any::<bool>().prop_map(|reclaim| Op::Snapshot { reclaim }),
        1 => (k, select(vec![0, 1, -1, 3]).prop_map(V::Rel), select(vec!["x", "5"]).prop_map(|s| s.to_string()), any::<bool>()).prop_map(|(k, ver, v, record_first)| Op::Resolve { k, ver, v, record_first }),
    ]
}

#[derive(Clone, Copy, PartialEq, Debug)]
enum Life {
    Absent,       // never written
    Live,
    Removed,
}

fn get_safe(s: &mut Session, node: &Node, k: &str) -> (String, i32) {
    match s.send(node, &format!("get-safe {}", k)).0 {
        Response::Value { value, version, .. } => (value, version),
        r => panic!("get-safe refused: {}", resp_text(&r)),
    }
}

pub fn run_seq(ctx: &Ctx, case: &Case) -> Outcome {
    let dir = ctx.fresh_dir();
    let mut node = Node::boot_single(&dir);
    let mut admin = Session::new();
    admin.auth(&node);
    admin.send(&node, "create-db d tok");
    admin.send(&node, "use-db d tok");
    let mut s = Session::new();
    s.send(&node, "use-db d tok");
    node.pump();
    let mut life: BTreeMap<String, Life> = BTreeMap::new();
    let mut max_since_birth: BTreeMap<String, i32> = BTreeMap::new();
    let mut fail: Option<(String, String)> = None;
    let mut near = false;
    for (i, op) in case.ops.iter().enumerate() {
        let key = match op {
            Op::Set { k, .. } | Op::SetSafe { k, .. } | Op::Inc { k, .. } | Op::Remove { k } | Op::Resolve { k, .. } => k.clone(),
            Op::Snapshot { reclaim } => {
                admin.send(&node, &format!("snapshot {}", reclaim));
                node.pump();
                node.snapshot_tick();
                continue;
            }
        };
        let l = *life.get(&key).unwrap_or(&Life::Absent);
        let (val_before, ver_before) = get_safe(&mut s, &node, &key);
        let before_dump = node.dump().remove("d").unwrap_or_default().get(&key).cloned();
        let lname = match l {
            Life::Absent => "absent",
            Life::Live => "live",
            Life::Removed => "removed",
        };
        let mutated_ok;
        match op {
            Op::Set { k, v } => {
                let (r, _) = s.send(&node, &format!("set {} {}", k, v));
                node.pump();
                if is_refusal(&r) && ver_before >= i32::MAX - 1 {
                    // no higher version exists: refusing is the only way to keep versions growing
                    continue;
                }
                if is_refusal(&r) {
                    fail = Some((format!("C02|set-refused|{}", lname), format!("step {}: plain set {} refused on a {} key @{}: {}", i, k, lname, ver_before, resp_text(&r))));
                    break;
                }
                mutated_ok = true;
            }
            Op::SetSafe { k, ver, v } => {
                let base = match ver {
                    V::Abs(n) => *n,
                    V::Rel(d) => ver_before.saturating_add(*d),
                };
                if (base as i64 - ver_before as i64).abs() <= 1 {
                    near = true;
                }
                let (r, _) = s.send(&node, &format!("set-safe {} {} {}", k, base, v));
                node.pump();
                let ok = !is_refusal(&r);
                let cls = if base == -1 { "minus-one" } else if base < -1 { "below-minus-one" } else if base == i32::MAX { "i32-max" } else if base < ver_before { "stale" } else { "fresh" };
                match l {
                    Life::Live => {
                        if base == -1 {
                            // -1 is the documented "no version" marker: both outcomes allowed
                        } else if base >= ver_before && !ok && base < i32::MAX - 1 {
                            fail = Some((format!("C02|fresh-set-safe-refused|{}", cls), format!("step {}: set-safe {} {} on live key @{} refused: {}", i, k, base, ver_before, resp_text(&r))));
                            break;
                        } else if base < ver_before && ok {
                            fail = Some((format!("C02|stale-set-safe-accepted|{}", cls), format!("step {}: set-safe {} {} accepted although get-safe reported version {}", i, k, base, ver_before)));
                            break;
                        }
                    }
                    Life::Absent => {
                        if !ok && base >= -1 && base < i32::MAX - 1 {
                            fail = Some((format!("C02|set-safe-on-absent-refused|{}", cls), format!("step {}: set-safe {} {} on a never-written key refused: {}", i, k, base, resp_text(&r))));
                            break;
                        }
                    }
                    Life::Removed => {} // ambiguous in the statement: either outcome
                }
                if !ok {
                    // a refusal changes nothing
                    let after = node.dump().remove("d").unwrap_or_default().get(&key).cloned();
                    if after != before_dump {
                        fail = Some((format!("C02|refused-set-safe-changed-key|{}", cls), format!("step {}: refused set-safe {} {} changed the key {:?} -> {:?}", i, k, base, before_dump, after)));
                        break;
                    }
                }
                mutated_ok = ok;
            }
            Op::Inc { k, n } => {
                let (r, _) = s.send(&node, &format!("increment {} {}", k, n));
                node.pump();
                mutated_ok = !is_refusal(&r);
                let numeric = l != Life::Live || val_before.parse::<i32>().is_ok();
                // an increment that would leave the integer range cannot add exactly its amount: acknowledging it loses it
                let cur: i32 = if l == Life::Live { val_before.parse::<i32>().unwrap_or(0) } else { 0 };
                let leaves_range = numeric && cur.checked_add(*n).is_none();
                if leaves_range {
                    if mutated_ok {
                        let (val_after, _) = get_safe(&mut s, &node, &key);
                        fail = Some(("C02|increment-acknowledged-but-not-added".to_string(), format!("step {}: increment {} {} on {:?} was acknowledged, the key holds {:?} now", i, k, n, val_before, val_after)));
                        break;
                    }
                    continue;
                }
                if numeric && !mutated_ok && ver_before < i32::MAX - 1 {
                    fail = Some((format!("C02|increment-refused|{}", lname), format!("step {}: increment {} refused on {:?}: {}", i, k, val_before, resp_text(&r))));
                    break;
                }
            }
            Op::Resolve { k, ver, v, record_first } => {
                if *record_first {
                    s.send(&node, &format!("set $conflicts_{}_1 resolve 1 d 0 {} old new", k, k));
                    node.pump();
                }
                let base = match ver {
                    V::Abs(n) => *n,
                    V::Rel(d) => ver_before.saturating_add(*d),
                };
                let (r, _) = s.send(&node, &format!("resolve 7 d {} {} {}", k, base, v));
                node.pump();
                let ok = !is_refusal(&r);
                if !ok {
                    let after = node.dump().remove("d").unwrap_or_default().get(&key).cloned();
                    if after != before_dump {
                        fail = Some(("C02|refused-resolve-changed-key".to_string(), format!("step {}: refused resolve 7 d {} {} changed the key {:?} -> {:?}", i, k, base, before_dump, after)));
                        break;
                    }
                }
                mutated_ok = ok;
            }
            Op::Remove { k } => {
                s.send(&node, &format!("remove {}", k));
                node.pump();
                life.insert(key.clone(), if l == Life::Absent { Life::Absent } else { Life::Removed });
                max_since_birth.remove(&key);
                continue;
            }
            Op::Snapshot { .. } => unreachable!(),
        }
        if mutated_ok {
            let (_, ver_after) = get_safe(&mut s, &node, &key);
            let was_live = l == Life::Live;
            if was_live {
                let m = *max_since_birth.get(&key).unwrap_or(&ver_before);
                let m = m.max(ver_before);
                if ver_after <= m {
                    let opn = match op {
                        Op::Set { .. } => "set",
                        Op::SetSafe { .. } => "set-safe",
                        Op::Resolve { .. } => "resolve",
                        _ => "increment",
                    };
                    fail = Some((format!("C02|version-did-not-grow|{}", opn), format!("step {} {:?}: version {} after a successful mutation, the key has had version {} since it came into existence", i, op, ver_after, m)));
                    break;
                }
                max_since_birth.insert(key.clone(), ver_after);
            } else {
                max_since_birth.insert(key.clone(), ver_after);
            }
            life.insert(key.clone(), Life::Live);
        }
    }
    drop(node);
    ctx.drop_dir(&dir);
    let mut out = Outcome::ok(near);
    if near {
        out.classes.push("set-safe-base-within-1-of-current");
    }
    out.fail = fail;
    out
}

// ------------------------------------------------------------------------------------------------
// concurrent part: linearizability against a version-parametric sequential specification
// ------------------------------------------------------------------------------------------------

#[derive(Clone, Debug, Serialize, Deserialize, PartialEq)]
pub enum COp {
    Set { k: usize },
    /// base = version the client read with its own earlier get-safe (or the initial one) + delta
    SetSafe { k: usize, delta: i32 },
    Inc { k: usize, n: i32 },
    GetSafe { k: usize },
    Remove { k: usize },
}

#[derive(Clone, Debug, Serialize, Deserialize)]
pub struct CCase {
    pub clients: Vec<Vec<COp>>,
    pub schedule: Vec<u16>,
    /// Some(reclaim): a snapshot of the database is queued beforehand and the periodic snapshot step runs as one more
    /// task, interleaved with the clients (it is a thread of its own in the server)
    #[serde(default)]
    pub snapshot: Option<bool>,
    /// the state the concurrent snapshot meets: key m was stored, removed and its tombstone stored (it is a tombstone with
    /// a place on disk), six other keys were stored and have been rewritten since (the snapshot has work to do before and
    /// after m). After the tasks a further snapshot completes alone, the node restarts and must hold what it held.
    #[serde(default)]
    pub on_disk_prelude: bool,
    /// (C06's engine only) database d has the arbiter strategy and an arbiter client is connected: a stale versioned
    /// write is parked (the key is put back with the in-conflict marker) instead of being refused. The replies are not
    /// judged then, only the restart phase
    #[serde(default)]
    pub arbiter_db: bool,
}

const CKEYS: [&str; 2] = ["n", "m"];

fn cop_strategy() -> impl Strategy<Value = COp> {
    let k = prop_oneof![3 => Just(0usize), 1 => Just(1usize)];
    prop_oneof![
        2 => k.clone().prop_map(|k| COp::Set { k }),
        4 => (k.clone(), select(vec![0, 0, -1, 1])).prop_map(|(k, delta)| COp::SetSafe { k, delta }),
        3 => (k.clone(), select(vec![1, 2, 5])).prop_map(|(k, n)| COp::Inc { k, n }),
        2 => k.clone().prop_map(|k| COp::GetSafe { k }),
        1 => k.prop_map(|k| COp::Remove { k }),
    ]
}

pub fn ccase_strategy() -> impl Strategy<Value = CCase> {
    (prop::collection::vec(prop::collection::vec(cop_strategy(), 1..4), 2..4), prop::collection::vec(prop_oneof![3 => Just(0u16), 2 => any::<u16>()], 0..40)).prop_map(|(clients, schedule)| CCase { clients, schedule, snapshot: None, on_disk_prelude: false, arbiter_db: false })
        .prop_flat_map(|c| prop_oneof![2 => Just(None), 1 => Just(Some(false)), 1 => Just(Some(true))].prop_map(move |s| CCase { snapshot: s, ..c.clone() }))
        // (half of the snapshot cases meet the on-disk prelude: the snapshot has six keys to store around the clients' keys,
        // which gives the clients room between its copy of the keys and its put-back of a key)
        .prop_flat_map(|c| any::<bool>().prop_map(move |p| CCase { on_disk_prelude: p && c.snapshot.is_some(), ..c.clone() }))
}

/// C06's use of this engine: every case has a snapshot task, the on-disk prelude and the restart phase; what the
/// restart phase finds is C06's business and carries its name
pub fn ccase_strategy_for_c06() -> impl Strategy<Value = CCase> {
    (ccase_strategy(), any::<bool>(), prop::bool::weighted(0.35)).prop_map(|(c, reclaim, arbiter_db)| CCase { snapshot: Some(c.snapshot.unwrap_or(reclaim)), on_disk_prelude: true, arbiter_db, ..c })
}

/// the restart phase belongs to C06: C02's own runs use the prelude for the replies only
static JUDGE_RESTART: std::sync::atomic::AtomicBool = std::sync::atomic::AtomicBool::new(false);

pub fn conc_guard_for_c06(ctx: &Ctx, c: &CCase) -> Outcome {
    JUDGE_RESTART.store(true, std::sync::atomic::Ordering::SeqCst);
    let mut o = conc_guard(ctx, c);
    // (only the restart phase is judged here: the replies are C02's)
    o.fail = match o.fail.take() {
        Some((sig, d)) if sig.starts_with("C02|after-writes-during-a-snapshot") => Some((sig.replacen("C02|", "C06|", 1), d)),
        _ => None,
    };
    o.nontrivial = o.classes.contains(&"restart-after-a-snapshot-that-ran-among-writers");
    o
}

/// one completed call
#[derive(Clone, Debug)]
pub struct Call {
    client: usize,
    op: COp,
    /// unique value written (set / set-safe)
    value: String,
    base: i32,
    start: u64,
    end: u64,
    ok: bool,
    /// for get-safe: what it returned
    got: Option<(String, i32)>,
    /// version the watcher saw this write produce (None = unknown)
    ver: Option<i32>,
}

#[derive(Clone, Debug, PartialEq)]
struct KState {
    present: bool,
    value: String,
    /// known version, or a lower bound when unknown
    ver: Option<i32>,
    lb: i64,
    /// a snapshot may run during the case: a removed key can be a tombstone that keeps a version, and a versioned
    /// write below it is refused (the statement leaves that case open: "not older than the version get-safe reports")
    tomb: bool,
}

fn apply(st: &KState, c: &Call) -> Option<KState> {
    match &c.op {
        COp::Set { .. } => {
            if !c.ok {
                return None; // a plain set on a database without strategy is never refused
            }
            let newv = c.ver;
            if st.present {
                if let (Some(n), Some(o)) = (newv, st.ver) {
                    if n <= o {
                        return None;
                    }
                }
                if let Some(n) = newv {
                    if (n as i64) < st.lb {
                        return None;
                    }
                }
            }
            Some(KState { present: true, value: c.value.clone(), ver: newv, lb: newv.map(|v| v as i64).unwrap_or(if st.present { st.lb + 1 } else { i64::MIN }), tomb: st.tomb })
        }
        COp::SetSafe { .. } => {
            if c.ok {
                if st.present {
                    match st.ver {
                        Some(o) if c.base < o => return None, // stale base accepted
                        None if (c.base as i64) < st.lb => return None,
                        _ => {}
                    }
                    if let (Some(n), Some(o)) = (c.ver, st.ver) {
                        if n <= o {
                            return None;
                        }
                    }
                }
                Some(KState { present: true, value: c.value.clone(), ver: c.ver, lb: c.ver.map(|v| v as i64).unwrap_or(if st.present { st.lb + 1 } else { i64::MIN }), tomb: st.tomb })
            } else {
                // refused: only a live key with a newer version refuses (or a tombstone, see KState::tomb)
                if !st.present {
                    return if st.tomb { Some(st.clone()) } else { None };
                }
                if let Some(o) = st.ver {
                    if c.base >= o {
                        return None;
                    }
                }
                Some(st.clone())
            }
        }
        COp::Inc { n, .. } => {
            if !c.ok {
                if st.present && st.value.parse::<i32>().is_err() {
                    return Some(st.clone());
                }
                return None;
            }
            let cur: i32 = if st.present { st.value.parse::<i32>().ok()? } else { 0 };
            let next = cur.checked_add(*n)?;
            Some(KState { present: true, value: next.to_string(), ver: None, lb: if st.present { st.ver.map(|v| v as i64).unwrap_or(st.lb) + 1 } else { i64::MIN }, tomb: st.tomb })
        }
        COp::GetSafe { .. } => {
            let (v, ver) = c.got.clone()?;
            if !st.present {
                if v == "<Empty>" { return Some(st.clone()); }
                return None;
            }
            if v != st.value {
                return None;
            }
            match st.ver {
                Some(o) if o != ver => None,
                Some(_) => Some(st.clone()),
                None => {
                    if (ver as i64) < st.lb {
                        None
                    } else {
                        Some(KState { ver: Some(ver), lb: ver as i64, ..st.clone() })
                    }
                }
            }
        }
        COp::Remove { .. } => Some(KState { present: false, value: String::new(), ver: None, lb: i64::MIN, tomb: st.tomb }),
    }
}

fn key_of(op: &COp) -> usize {
    match op {
        COp::Set { k } | COp::SetSafe { k, .. } | COp::Inc { k, .. } | COp::GetSafe { k } | COp::Remove { k } => *k,
    }
}

/// depth-first search for a linearization (per key: operations on different keys commute)
fn linearizable(calls: &[Call], init: &KState) -> bool {
    fn rec(calls: &[Call], done: &mut Vec<bool>, st: &KState, left: usize) -> bool {
        if left == 0 {
            return true;
        }
        for i in 0..calls.len() {
            if done[i] {
                continue;
            }
            // real-time order: i may go next only if no other pending call ended before i started
            if (0..calls.len()).any(|j| !done[j] && j != i && calls[j].end < calls[i].start) {
                continue;
            }
            if let Some(ns) = apply(st, &calls[i]) {
                done[i] = true;
                if rec(calls, done, &ns, left - 1) {
                    return true;
                }
                done[i] = false;
            }
        }
        false
    }
    let mut done = vec![false; calls.len()];
    rec(calls, &mut done, init, calls.len())
}

fn describe(calls: &[Call]) -> String {
    calls
        .iter()
        .map(|c| {
            let what = match &c.op {
                COp::Set { .. } => format!("set {:?}", c.value),
                COp::SetSafe { .. } => format!("set-safe base={} {:?}", c.base, c.value),
                COp::Inc { n, .. } => format!("increment {}", n),
                COp::GetSafe { .. } => format!("get-safe -> {:?}", c.got),
                COp::Remove { .. } => "remove".to_string(),
            };
            format!("[c{} t{}..{} {} {}{}]", c.client, c.start, c.end, what, if c.ok { "ok" } else { "REFUSED" }, c.ver.map(|v| format!(" =>v{}", v)).unwrap_or_default())
        })
        .collect::<Vec<_>>()
        .join(" ")
}

pub fn run_conc(ctx: &Ctx, case: &CCase) -> Result<Outcome, String> {
    let dir = ctx.fresh_dir();
    let mut node = Node::boot_single(&dir);
    let mut admin = Session::new();
    admin.auth(&node);
    admin.send(&node, if case.arbiter_db { "create-db d tok arbiter" } else { "create-db d tok" });
    admin.send(&node, "use-db d tok");
    admin.send(&node, "set n 10");
    let mut arbiter = Session::new();
    if case.arbiter_db {
        arbiter.send(&node, "use-db d tok");
        arbiter.send(&node, "arbiter");
    }
    if case.on_disk_prelude {
        admin.send(&node, "set m stored");
        for i in 0..6 {
            admin.send(&node, &format!("set f{} stored", i));
        }
        admin.send(&node, "snapshot false");
        node.pump();
        node.snapshot_tick();
        admin.send(&node, "remove m");
        admin.send(&node, "snapshot false");
        node.pump();
        node.snapshot_tick();
        for i in 0..6 {
            admin.send(&node, &format!("set f{} rewritten", i));
        }
        admin.drain();
    }
    // a passive watcher that records the version every write produced
    let mut watcher = Session::new();
    watcher.send(&node, "use-db d tok");
    for k in CKEYS {
        watcher.send(&node, &format!("watch {}", k));
    }
    node.pump();
    let init_n = get_safe(&mut admin, &node, "n");
    let mut tasks: Vec<Box<dyn FnOnce(&sched::TaskCtx) -> Vec<Call> + Send>> = vec![];
    for (ci, prog) in case.clients.iter().enumerate() {
        let prog = prog.clone();
        let dbs = node.dbs.clone();
        let init_ver = init_n.1;
        let mut s = Session::new();
        s.send(&node, "use-db d tok");
        tasks.push(Box::new(move |t: &sched::TaskCtx| {
            let mut known: [i32; 2] = [init_ver, 0];
            let mut out = vec![];
            for (oi, op) in prog.iter().enumerate() {
                t.pause("cmd");
                let value = format!("c{}o{}", ci, oi);
                let k = CKEYS[key_of(op)];
                let (line, base) = match op {
                    COp::Set { .. } => (format!("set {} {}", k, value), 0),
                    COp::SetSafe { delta, .. } => {
                        let b = (known[key_of(op)] + delta).max(0);
                        (format!("set-safe {} {} {}", k, b, value), b)
                    }
                    COp::Inc { n, .. } => (format!("increment {} {}", k, n), 0),
                    COp::GetSafe { .. } => (format!("get-safe {}", k), 0),
                    COp::Remove { .. } => (format!("remove {}", k), 0),
                };
                let start = t.now();
                let r = nundb::process_request::process_request(&line, &dbs, &mut s.client);
                let end = t.now();
                let got = match (&op, &r) {
                    (COp::GetSafe { .. }, Response::Value { value, version, .. }) => {
                        known[key_of(op)] = *version;
                        Some((value.clone(), *version))
                    }
                    _ => None,
                };
                s.drain();
                out.push(Call { client: ci, op: op.clone(), value, base, start, end, ok: !is_refusal(&r), got, ver: None });
            }
            out
        }));
    }
    if let Some(reclaim) = case.snapshot {
        // the snapshot is requested now and executed by a task of its own (in the server: the declutter thread)
        admin.send(&node, &format!("snapshot {}", reclaim));
        node.pump();
        let dbs = node.dbs.clone();
        tasks.push(Box::new(move |t: &sched::TaskCtx| {
            t.pause("cmd");
            nundb::disk_ops::snapshot_all_pendding_dbs(&dbs);
            vec![]
        }));
    }
    if std::env::var("NV_C02_DEBUG").is_ok() {
        let st = node.dbs.map.read().unwrap().get("d").and_then(|d| d.map.read().unwrap().get("n").map(|v| format!("{:?} v{} {:?}", v.value, v.version, v.state as i32)));
        eprintln!("before the tasks: n = {:?}", st);
    }
    let (results, info) = match sched::run(tasks, &case.schedule, sched::lock_sites) {
        Ok(x) => x,
        Err(e) => return Err(e),
    };
    node.pump();
    let mut calls: Vec<Call> = vec![];
    let mut fail: Option<(String, String)> = None;
    for r in results {
        match r {
            Ok(c) => calls.extend(c),
            Err(p) => fail = Some((format!("C02|client-panicked|{}", p.chars().take(40).collect::<String>()), p)),
        }
    }
    // versions the watcher saw
    for m in watcher.drain() {
        if let Some(rest) = m.strip_prefix("changed-version ") {
            let mut it = rest.trim_end_matches('\n').splitn(3, ' ');
            let (_k, ver, val) = (it.next(), it.next().and_then(|v| v.parse::<i32>().ok()), it.next().unwrap_or(""));
            if let Some(c) = calls.iter_mut().find(|c| c.value == val && matches!(c.op, COp::Set { .. } | COp::SetSafe { .. })) {
                if ver != Some(-1) {
                    c.ver = ver;
                }
            }
        }
    }
    // final reads, after everything
    let tmax = calls.iter().map(|c| c.end).max().unwrap_or(0) + 10;
    for (ki, k) in CKEYS.iter().enumerate() {
        let g = get_safe(&mut admin, &node, k);
        calls.push(Call { client: 99, op: COp::GetSafe { k: ki }, value: String::new(), base: 0, start: tmax, end: tmax + 1, ok: true, got: Some(g), ver: None });
    }
    let mut overlapping_writers = false;
    for a in calls.iter() {
        for b in calls.iter() {
            if a.client < b.client && key_of(&a.op) == key_of(&b.op) && !matches!(a.op, COp::GetSafe { .. }) && !matches!(b.op, COp::GetSafe { .. }) && a.start <= b.end && b.start <= a.end && b.client != 99 {
                overlapping_writers = true;
            }
        }
    }
    if fail.is_none() && !case.arbiter_db {
        for ki in 0..2 {
            let per_key: Vec<Call> = calls.iter().filter(|c| key_of(&c.op) == ki).cloned().collect();
            let tomb = case.snapshot.is_some();
            let init = if ki == 0 { KState { present: true, value: init_n.0.clone(), ver: Some(init_n.1), lb: init_n.1 as i64, tomb } } else { KState { present: false, value: String::new(), ver: None, lb: i64::MIN, tomb } };
            if !linearizable(&per_key, &init) {
                // name the corollary for readability
                let succ: Vec<&Call> = per_key.iter().filter(|c| c.ok && matches!(c.op, COp::SetSafe { .. })).collect();
                let removes = per_key.iter().any(|c| matches!(c.op, COp::Remove { .. }));
                let same_base = succ.iter().enumerate().any(|(i, a)| succ.iter().skip(i + 1).any(|b| a.base == b.base));
                let only_incs = per_key.iter().all(|c| matches!(c.op, COp::Inc { .. } | COp::GetSafe { .. }));
                let kind = if same_base && !removes {
                    "two-set-safe-same-base-both-succeeded"
                } else if only_incs {
                    "lost-increment"
                } else {
                    "no-sequential-order-explains-the-replies"
                };
                fail = Some((format!("C02|not-linearizable|{}", kind), format!("key {}: initial {:?}; calls {}; trace {:?}", CKEYS[ki], if ki == 0 { Some(&init_n) } else { None }, describe(&per_key), info.trace)));
                break;
            }
        }
    }
    let mut durability_judged = false;
    if fail.is_none() && case.on_disk_prelude && case.snapshot.is_some() && JUDGE_RESTART.load(std::sync::atomic::Ordering::SeqCst) {
        // a further snapshot completes with nobody writing, then the node is started again: C06's promise for a snapshot
        // that ran while clients were writing
        use std::panic::{catch_unwind, AssertUnwindSafe};
        admin.send(&node, "snapshot false");
        node.pump();
        let held = |n: &Node| -> std::collections::BTreeMap<String, (String, i32)> { n.dump_db("d").unwrap_or_default().into_iter().filter(|(k, v)| !v.2 && !k.starts_with('$')).filter(|(_, v)| !(v.0 == "<Empty>" && v.1 == -2)).map(|(k, v)| (k, (v.0, v.1))).collect() };
        // (a removed key that a conflicting write parked for the arbiter holds "<Empty>" with the in-conflict marker: what a
        // conflict on a removed key leaves behind is not stated by any property, it is not compared)
        let tick = catch_unwind(AssertUnwindSafe(|| node.snapshot_tick()));
        let before = held(&node);
        drop(admin);
        drop(watcher);
        drop(arbiter);
        drop(node);
        durability_judged = true;
        if let Err(e) = tick {
            fail = Some(("C02|after-writes-during-a-snapshot|next-snapshot-panics".into(), format!("the snapshot after the concurrent one panicked: {}; trace {:?}", crate::node::panic_text(e), info.trace)));
        } else {
            match crate::node::probe_boot(&dir).map_err(|e| e.to_string()).and_then(|_| catch_unwind(AssertUnwindSafe(|| Node::boot_single(&dir))).map_err(|e| crate::node::panic_text(e))) {
                Err(e) => fail = Some(("C02|after-writes-during-a-snapshot|node-does-not-start".into(), format!("after the snapshot that completed alone the node does not start: {}; calls {}; trace {:?}", e, describe(&calls), info.trace))),
                Ok(n2) => {
                    let after = held(&n2);
                    if after != before {
                        let diff: Vec<String> = before.keys().chain(after.keys()).filter(|k| before.get(*k) != after.get(*k)).map(|k| format!("{}: {:?} -> {:?}", k, before.get(k), after.get(k))).collect();
                        fail = Some(("C02|after-writes-during-a-snapshot|restart-differs".into(), format!("held at the last (completed, undisturbed) snapshot vs loaded after the restart: {:?}; calls {}; trace {:?}", diff, describe(&calls), info.trace)));
                    }
                    drop(n2);
                }
            }
        }
    } else {
        drop(node);
    }
    ctx.drop_dir(&dir);
    let mut out = Outcome::ok(overlapping_writers && info.switches > 0);
    if durability_judged {
        out.classes.push("restart-after-a-snapshot-that-ran-among-writers");
    }
    if overlapping_writers {
        out.classes.push("overlapping-writers-on-one-key");
    }
    out.counters.push(("yield_points", info.yields));
    out.counters.push(("context_switches", info.switches));
    out.fail = fail;
    Ok(out)
}

pub fn conc_guard(ctx: &Ctx, c: &CCase) -> Outcome {
    match run_conc(ctx, c) {
        Ok(o) => o,
        Err(e) => {
            // watchdog: not a verdict about nun-db
            eprintln!("C02: scheduler watchdog: {}", e);
            std::process::exit(2);
        }
    }
}

/// all schedules with at most 2 pre-emptions for the 2x2 configurations (CHESS-style bound)
fn bounded_schedules(len: usize) -> Vec<Vec<u16>> {
    // choice 0 = continue, 40000 = switch to the other task (2 runnable: index 1 of [a,b] when c-1 >= 32768)
    // a switch at position i is encoded as "pick the other": with 2 runnable tasks, value 1 picks index 0, 65535 index 1
    let mut out = vec![vec![0u16; len]];
    for i in 0..len {
        for who in [1u16, 65535u16] {
            let mut s = vec![0u16; len];
            s[i] = who;
            out.push(s.clone());
            for j in i + 1..len {
                for who2 in [1u16, 65535u16] {
                    let mut s2 = s.clone();
                    s2[j] = who2;
                    out.push(s2);
                }
            }
        }
    }
    out
}

fn small_programs() -> Vec<Vec<Vec<COp>>> {
    let ops = vec![COp::SetSafe { k: 0, delta: 0 }, COp::Inc { k: 0, n: 1 }, COp::Set { k: 0 }, COp::GetSafe { k: 0 }, COp::Remove { k: 0 }];
    let mut out = vec![];
    for a in ops.iter() {
        for b in ops.iter() {
            out.push(vec![vec![a.clone()], vec![b.clone()]]);
            out.push(vec![vec![COp::GetSafe { k: 0 }, a.clone()], vec![COp::GetSafe { k: 0 }, b.clone()]]);
        }
    }
    out
}

// ------------------------------------------------------------------------------------------------
// The same sequential histories over the TCP front end: a client only knows what the server answers. Every command is
// sent on one TCP connection for key <k> and, in process, for a twin key with the same history; the acknowledgement
// on the wire must be an error exactly when the in-process reply is a refusal (Error / VersionError).
// ------------------------------------------------------------------------------------------------

pub struct TcpWorld {
    pub srv: crate::props::c10::TServer,
    pub counter: std::cell::Cell<u64>,
}

pub fn run_tcp(w: &TcpWorld, case: &Case) -> Outcome {
    let n = w.counter.get();
    w.counter.set(n + 1);
    let node = &w.srv.node;
    let mut twin = Session::new();
    twin.send(node, "use-db probe ptok");
    let mut out = Outcome::ok(false);
    out.classes.push("over-tcp");
    let mut tcp = match crate::transport::TcpSession::connect(w.srv.tcp) {
        Ok(t) => t,
        Err(e) => {
            eprintln!("C02 tcp engine: {}", e);
            return out;
        }
    };
    if let Err(e) = tcp.cmd("use-db probe ptok") {
        eprintln!("C02 tcp engine: {}", e);
        return out;
    }
    let mut refused_seen = false;
    for (i, op) in case.ops.iter().enumerate() {
        let (k0, line_for) = match op {
            Op::Set { k, v } => (k.clone(), Box::new({ let v = v.clone(); move |key: &str, _cur: i32| format!("set {} {}", key, v) }) as Box<dyn Fn(&str, i32) -> String>),
            Op::SetSafe { k, ver, v } => {
                let (ver, v) = (ver.clone(), v.clone());
                (k.clone(), Box::new(move |key: &str, cur: i32| { let x = match ver { V::Abs(a) => a, V::Rel(d) => cur.saturating_add(d) }; format!("set-safe {} {} {}", key, x, v) }) as Box<dyn Fn(&str, i32) -> String>)
            }
            Op::Inc { k, n } => (k.clone(), Box::new({ let n = *n; move |key: &str, _cur: i32| format!("increment {} {}", key, n) }) as Box<dyn Fn(&str, i32) -> String>),
            Op::Remove { k } => (k.clone(), Box::new(|key: &str, _cur: i32| format!("remove {}", key)) as Box<dyn Fn(&str, i32) -> String>),
            Op::Snapshot { .. } | Op::Resolve { .. } => continue,
        };
        let (key_tcp, key_twin) = (format!("{}w{}", k0, n), format!("{}t{}", k0, n));
        let (_v, cur) = get_safe(&mut twin, node, &key_twin);
        let (r, _msgs) = twin.send(node, &line_for(&key_twin, cur));
        let refused = matches!(r, Response::Error { .. } | Response::VersionError { .. });
        let line = line_for(&key_tcp, cur);
        match tcp.cmd(&line) {
            Err(e) => {
                out.fail = Some(("C02|over-tcp|no-acknowledgement".into(), format!("step {} {:?}: {}", i, line, e)));
                return out;
            }
            Ok((ack, _before)) => {
                let ack_is_error = ack.starts_with("error");
                if refused {
                    refused_seen = true;
                }
                if ack_is_error != refused {
                    let kind = match &r {
                        Response::VersionError { .. } => "version-refusal",
                        Response::Error { .. } => "error",
                        _ => "accepted",
                    };
                    out.fail = Some((format!("C02|over-tcp|acknowledgement-disagrees-with-the-outcome|{}|{}", line.split(' ').next().unwrap_or(""), kind), format!("step {}: {:?} over TCP is answered {:?}; the same command on a key with the same history is {} in process ({})", i, line, ack, if refused { "REFUSED" } else { "accepted" }, crate::node::resp_text(&r))));
                    return out;
                }
            }
        }
    }
    out.nontrivial = refused_seen;
    if refused_seen {
        out.classes.push("a-refused-write-over-tcp");
    }
    out
}

pub fn run(ctx: &Ctx, rep: &mut Report) {
    crate::interpose::virtual_clock(true);
    let n = ctx.amount(20_000, 300_000);
    explore(ctx, rep, "sequential", n, prop::collection::vec(op_strategy(), 1..14).prop_map(|ops| Case { ops }), |c| run_seq(ctx, c));
    let n2 = ctx.amount(12_000, 200_000);
    explore(ctx, rep, "concurrent", n2, ccase_strategy(), |c| conc_guard(ctx, c));
    if rep.failures.is_empty() {
        let progs = small_programs();
        let scheds = bounded_schedules(if ctx.quick() { 14 } else { 22 });
        let cases = progs.into_iter().flat_map(move |p| scheds.clone().into_iter().map(move |s| CCase { clients: p.clone(), schedule: s, snapshot: None, on_disk_prelude: false, arbiter_db: false }));
        enumerate(ctx, rep, "two-clients-all-schedules-with-at-most-2-preemptions", cases, |c| conc_guard(ctx, c));
    }
    if rep.failures.is_empty() {
        let w = TcpWorld { srv: crate::props::c10::TServer::start(ctx), counter: std::cell::Cell::new(0) };
        let n3 = ctx.amount(3000, 100_000);
        explore(ctx, rep, "replies-over-tcp", n3, prop::collection::vec(op_strategy(), 1..10).prop_map(|ops| Case { ops }), |c| run_tcp(&w, c));
    }
}

pub fn replay(ctx: &Ctx, engine: &str, case: &J) -> Result<Option<(String, String)>, String> {
    crate::interpose::virtual_clock(true);
    if engine == "replies-over-tcp" {
        let w = TcpWorld { srv: crate::props::c10::TServer::start(ctx), counter: std::cell::Cell::new(0) };
        return replay_guarded::<Case>(ctx, case, |c| run_tcp(&w, c));
    }
    if engine == "sequential" {
        replay_guarded::<Case>(ctx, case, |c| run_seq(ctx, c))
    } else {
        replay_guarded::<CCase>(ctx, case, |c| conc_guard(ctx, c))
    }
}
