//! C19 — newer-strategy databases accept every write; the last applied one wins (local parts).
use crate::node::{is_refusal, resp_text, Node, Session};
use crate::report::{explore, replay_guarded, Ctx, Outcome, Report};
use crate::sched;
use nundb::bo::Response;
use proptest::prelude::*;
use proptest::sample::select;
use serde::{Deserialize, Serialize};
use serde_json::Value as J;

#[derive(Clone, Debug, Serialize, Deserialize, PartialEq)]
pub enum Wr {
    Plain { k: usize },
    /// versioned write with version = current + delta (below, at, above)
    Versioned { k: usize, delta: i32 },
    /// the same through db_ops::set_key_value, whose reply names the stored value
    Api { k: usize, delta: i32 },
    /// `resolve <op id> <db> <key> <version> <value>` sent by the client (an arbiter's answer; this database has no
    /// arbiter): it may be refused, or be a write like the others; what it must not do is spoil the writes that follow
    Resolve { k: usize, delta: i32, big_id: bool },
}

#[derive(Clone, Debug, Serialize, Deserialize)]
pub struct Case {
    /// "created" (create-db .. newer), "admin" ($admin), "restored" (snapshotted database whose metadata file is gone)
    pub db: String,
    pub writes: Vec<Wr>,
}

#[derive(Clone, Debug, Serialize, Deserialize)]
pub struct CCase {
    pub db: String,
    pub clients: Vec<Vec<Wr>>,
    pub schedule: Vec<u16>,
    /// both keys exist, a snapshot of the database is queued and the snapshot step runs as one more task among the
    /// clients (in the server it is a thread of its own)
    #[serde(default)]
    pub snapshot: bool,
    /// every client write stores the text the key already holds (`init2`, what the snapshot prelude wrote): the value does
    /// not change, the version still has to grow and must never go back
    #[serde(default)]
    pub same_value: bool,
}

const KEYS: [&str; 2] = ["k", "j"];

fn wr_strategy(api: bool) -> BoxedStrategy<Wr> {
    let k = prop_oneof![3 => Just(0usize), 1 => Just(1usize)];
    let delta = select(vec![-5, -2, -1, 0, 0, 1, 3]);
    if api {
        prop_oneof![2 => k.clone().prop_map(|k| Wr::Plain { k }), 5 => (k.clone(), delta.clone()).prop_map(|(k, delta)| Wr::Versioned { k, delta }), 3 => (k.clone(), delta.clone()).prop_map(|(k, delta)| Wr::Api { k, delta }), 1 => (k, delta, any::<bool>()).prop_map(|(k, delta, big_id)| Wr::Resolve { k, delta, big_id })].boxed()
    } else {
        prop_oneof![2 => k.clone().prop_map(|k| Wr::Plain { k }), 5 => (k, delta).prop_map(|(k, delta)| Wr::Versioned { k, delta })].boxed()
    }
}

/// boots a node that has the requested kind of newer database; returns (node, db name, token)
fn world(ctx: &Ctx, kind: &str) -> (Node, String, String, String) {
    let dir = ctx.fresh_dir();
    let mut node = Node::boot_single(&dir);
    let mut admin = Session::new();
    admin.auth(&node);
    match kind {
        "admin" => (node, "$admin".to_string(), crate::node::PWD.to_string(), dir),
        "restored" => {
            admin.send(&node, "create-db r rtok none");
            admin.send(&node, "use-db r rtok");
            admin.send(&node, "set k before");
            admin.send(&node, "snapshot false");
            node.pump();
            node.snapshot_tick();
            drop(admin);
            drop(node);
            std::fs::remove_file(format!("{}/r-nun.madadata", dir)).expect("metadata file");
            let node = Node::boot_single(&dir);
            (node, "r".to_string(), "rtok".to_string(), dir)
        }
        _ => {
            admin.send(&node, "create-db c ctok newer");
            node.pump();
            (node, "c".to_string(), "ctok".to_string(), dir)
        }
    }
}

fn stored(node: &Node, db: &str, k: &str) -> Option<(String, i32)> {
    node.dbs.map.read().unwrap().get(db).and_then(|d| d.get_value(k.to_string())).map(|v| (v.value, v.version))
}

pub fn run_seq(ctx: &Ctx, case: &Case) -> Outcome {
    let (mut node, db, tok, dir) = world(ctx, &case.db);
    let strategy = node.dbs.map.read().unwrap().get(&db).map(|d| d.metadata.consensus_strategy.to_string()).unwrap_or_default();
    let mut out = Outcome::ok(false);
    if strategy != "newer" {
        out.fail = Some((format!("C19|not-newer|{}", case.db), format!("the {} database has strategy {:?}", case.db, strategy)));
        drop(node);
        ctx.drop_dir(&dir);
        return out;
    }
    let mut s = Session::new();
    s.send(&node, &format!("use-db {} {}", db, tok));
    let mut w = Session::new();
    w.send(&node, &format!("use-db {} {}", db, tok));
    for k in KEYS {
        w.send(&node, &format!("watch {}", k));
    }
    w.drain();
    let mut stale = false;
    let mut fail = None;
    for (i, wr) in case.writes.iter().enumerate() {
        let value = format!("v{}", i);
        if let Wr::Resolve { k, delta, big_id } = wr {
            let key = KEYS[*k];
            let before = stored(&node, &db, key);
            let cur = before.as_ref().map(|b| b.1).unwrap_or(0);
            let line = format!("resolve {} {} {} {} {}", if *big_id { "18446744073709551615" } else { "7" }, db, key, (cur + delta).max(0), value);
            let (r, _) = s.send(&node, &line);
            node.pump();
            let after = stored(&node, &db, key);
            if is_refusal(&r) {
                if after != before {
                    fail = Some(("C19|refused-resolve-changed-the-key".to_string(), format!("write {} {:?}: refused ({}) but {:?} -> {:?}", i, line, resp_text(&r), before, after)));
                    break;
                }
            } else if after.as_ref().map(|a| a.0.as_str()) != Some(value.as_str()) {
                fail = Some(("C19|accepted-resolve-not-stored".to_string(), format!("write {} {:?} answered ok, stored afterwards {:?}", i, line, after)));
                break;
            }
            w.drain();
            continue;
        }
        let (k, delta, api) = match wr {
            Wr::Plain { k } => (*k, None, false),
            Wr::Versioned { k, delta } => (*k, Some(*delta), false),
            Wr::Api { k, delta } => (*k, Some(*delta), true),
            Wr::Resolve { .. } => unreachable!(),
        };
        let key = KEYS[k];
        let before = stored(&node, &db, key);
        let cur = before.as_ref().map(|b| b.1).unwrap_or(0);
        let ver = delta.map(|d| (cur + d).max(0));
        if let (Some(v), Some(_)) = (ver, &before) {
            if v < cur {
                stale = true;
            }
        }
        let cls = match (ver, &before) {
            (None, _) => "plain",
            (Some(_), None) => "versioned-new-key",
            (Some(v), Some(_)) if v < cur => "versioned-stale",
            (Some(v), Some(_)) if v == cur => "versioned-at-current",
            _ => "versioned-above",
        };
        if api {
            crate::node::use_dir(&node.dir);
            let r = {
                let dbs = node.dbs.map.read().unwrap();
                let d = dbs.get(&db).unwrap();
                nundb::db_ops::set_key_value(key.to_string(), value.clone(), ver.unwrap(), d, &node.dbs)
            };
            match &r {
                Response::Set { value: rv, .. } => {
                    let now = stored(&node, &db, key).map(|x| x.0).unwrap_or_default();
                    if *rv != now {
                        fail = Some((format!("C19|reply-is-not-the-stored-value|{}", cls), format!("write {}: reply says {:?} but {:?} is stored", i, rv, now)));
                        break;
                    }
                }
                r => {
                    fail = Some((format!("C19|refused|{}", cls), format!("write {} ({:?}, version {:?} on {:?}): {}", i, wr, ver, before, resp_text(r))));
                    break;
                }
            }
        } else {
            let line = match ver {
                None => format!("set {} {}", key, value),
                Some(v) => format!("set-safe {} {} {}", key, v, value),
            };
            let (r, _) = s.send(&node, &line);
            if is_refusal(&r) {
                fail = Some((format!("C19|refused|{}", cls), format!("write {} {:?} on {:?}: {}", i, line, before, resp_text(&r))));
                break;
            }
        }
        node.pump();
        let after = stored(&node, &db, key);
        // sequentially the most recently issued change is this one
        if after.as_ref().map(|a| a.0.as_str()) != Some(value.as_str()) {
            fail = Some((format!("C19|last-write-did-not-win|{}", cls), format!("write {} ({:?}, version {:?}) on {:?}: stored afterwards {:?}", i, wr, ver, before, after)));
            break;
        }
        if let (Some(b), Some(a)) = (&before, &after) {
            if a.1 <= b.1 {
                fail = Some((format!("C19|version-did-not-grow|{}", cls), format!("write {} ({:?}, version {:?}): version {} -> {}", i, wr, ver, b.1, a.1)));
                break;
            }
        }
        // exactly one notification pair for the changed value
        let lines = w.drain();
        let want = vec![format!("changed {} {}\n", key, value), format!("changed-version {} {} {}\n", key, after.as_ref().unwrap().1, value)];
        if lines != want {
            fail = Some((format!("C19|notifications|{}", cls), format!("write {} ({:?}): watcher received {:?}, expected {:?}", i, wr, lines, want)));
            break;
        }
    }
    drop(node);
    ctx.drop_dir(&dir);
    out.nontrivial = stale;
    if stale {
        out.classes.push("has-stale-versioned-write");
    }
    out.classes.push(match case.db.as_str() {
        "admin" => "db-admin",
        "restored" => "db-restored-without-metadata",
        _ => "db-created-newer",
    });
    out.fail = fail;
    out
}

struct Done {
    value: String,
    key: usize,
    start: u64,
    end: u64,
    refused: Option<String>,
}

pub fn run_conc(ctx: &Ctx, case: &CCase) -> Result<Outcome, String> {
    let (mut node, db, tok, dir) = world(ctx, &case.db);
    let mut w = Session::new();
    w.send(&node, &format!("use-db {} {}", db, tok));
    for k in KEYS {
        w.send(&node, &format!("watch {}", k));
    }
    w.drain();
    let mut tasks: Vec<Box<dyn FnOnce(&sched::TaskCtx) -> Vec<Done> + Send>> = vec![];
    for (ci, prog) in case.clients.iter().enumerate() {
        let prog = prog.clone();
        let dbs = node.dbs.clone();
        let dbn = db.clone();
        let same_value = case.same_value;
        let mut s = Session::new();
        s.send(&node, &format!("use-db {} {}", db, tok));
        tasks.push(Box::new(move |t: &sched::TaskCtx| {
            let mut out = vec![];
            for (oi, wr) in prog.iter().enumerate() {
                t.pause("cmd");
                let value = if same_value { "init2".to_string() } else { format!("c{}w{}", ci, oi) };
                let (k, delta) = match wr {
                    Wr::Plain { k } => (*k, None),
                    Wr::Versioned { k, delta } | Wr::Api { k, delta } | Wr::Resolve { k, delta, .. } => (*k, Some(*delta)),
                };
                let cur = dbs.map.read().unwrap().get(&dbn).and_then(|d| d.map.read().unwrap().get(KEYS[k]).map(|v| v.version)).unwrap_or(0);
                let line = match delta {
                    None => format!("set {} {}", KEYS[k], value),
                    Some(d) => format!("set-safe {} {} {}", KEYS[k], (cur + d).max(0), value),
                };
                let start = t.now();
                let r = nundb::process_request::process_request(&line, &dbs, &mut s.client);
                let end = t.now();
                s.drain();
                out.push(Done { value, key: k, start, end, refused: if is_refusal(&r) { Some(resp_text(&r)) } else { None } });
            }
            out
        }));
    }
    if case.snapshot {
        let mut a = Session::new();
        a.auth(&node);
        a.send(&node, &format!("use-db {} {}", db, tok));
        for k in KEYS {
            a.send(&node, &format!("set {} init1", k));
            a.send(&node, &format!("set {} init2", k));
        }
        for i in 0..4 {
            a.send(&node, &format!("set filler{} x", i));
        }
        a.send(&node, "snapshot false");
        node.pump();
        let _ = a.disconnect(&node);
        w.drain();
        let dbs = node.dbs.clone();
        tasks.push(Box::new(move |t: &sched::TaskCtx| {
            t.pause("cmd");
            nundb::disk_ops::snapshot_all_pendding_dbs(&dbs);
            vec![]
        }));
    }
    let (results, info) = sched::run(tasks, &case.schedule, sched::lock_sites)?;
    node.pump();
    let mut done: Vec<Done> = vec![];
    let mut fail: Option<(String, String)> = None;
    for r in results {
        match r {
            Ok(d) => done.extend(d),
            Err(p) => fail = Some((format!("C19|client-panicked|{}", p.chars().take(40).collect::<String>()), p)),
        }
    }
    let lines = w.drain();
    let mut overlap = false;
    if fail.is_none() {
        if let Some(d) = done.iter().find(|d| d.refused.is_some()) {
            fail = Some(("C19|refused|concurrent".into(), format!("write {:?} refused: {:?}; trace {:?}", d.value, d.refused, info.trace)));
        }
    }
    if fail.is_none() {
        for k in 0..2 {
            let ws: Vec<&Done> = done.iter().filter(|d| d.key == k).collect();
            if ws.is_empty() {
                continue;
            }
            overlap = overlap || ws.iter().any(|a| ws.iter().any(|b| a.value != b.value && a.start <= b.end && b.start <= a.end));
            let fin = stored(&node, &db, KEYS[k]).map(|x| x.0).unwrap_or_default();
            // the final value is the value of a write that no other write follows in real time
            let candidates: Vec<&str> = ws.iter().filter(|a| !ws.iter().any(|b| b.start > a.end)).map(|a| a.value.as_str()).collect();
            if !candidates.contains(&fin.as_str()) {
                fail = Some(("C19|final-value-is-not-a-last-write".into(), format!("key {}: final {:?}, writes {:?}, possible last writes {:?}; trace {:?}", KEYS[k], fin, ws.iter().map(|d| (&d.value, d.start, d.end)).collect::<Vec<_>>(), candidates, info.trace)));
                break;
            }
            // every write was notified exactly once (each changed the stored value: unique values)
            for d in ws.iter() {
                let c = lines.iter().filter(|l| **l == format!("changed {} {}\n", KEYS[k], d.value)).count();
                if c > 1 && !case.same_value {
                    fail = Some(("C19|notifications|duplicated".into(), format!("write {:?} notified {} times: {:?}", d.value, c, lines)));
                }
            }
            // the highest-version notification carries the final value
            let mut best: Option<(i32, Vec<String>)> = None;
            for l in lines.iter() {
                if let Some(rest) = l.strip_prefix(&format!("changed-version {} ", KEYS[k])) {
                    let mut it = rest.trim_end_matches('\n').splitn(2, ' ');
                    if let (Some(ver), Some(val)) = (it.next().and_then(|v| v.parse::<i32>().ok()), it.next()) {
                        match &mut best {
                            Some((bv, vals)) if *bv == ver => vals.push(val.to_string()),
                            Some((bv, _)) if *bv > ver => {}
                            _ => best = Some((ver, vec![val.to_string()])),
                        }
                    }
                }
            }
            if let Some((ver, _)) = &best {
                // the stored version only grows: what is stored at the end is not below a version a watcher was told
                let fin_ver = stored(&node, &db, KEYS[k]).map(|x| x.1).unwrap_or(0);
                if fin_ver < *ver && fail.is_none() {
                    fail = Some(("C19|stored-version-went-back".into(), format!("key {}: a watcher was told version {}, the key is stored with version {} afterwards; lines {:?}; trace {:?}", KEYS[k], ver, fin_ver, lines, info.trace)));
                }
            }
            if let Some((ver, vals)) = best {
                if !vals.contains(&fin) && fail.is_none() {
                    fail = Some(("C19|highest-version-notification-not-current".into(), format!("key {}: final {:?} but the highest notified version {} carries {:?}; lines {:?}; trace {:?}", KEYS[k], fin, ver, vals, lines, info.trace)));
                }
            }
        }
    }
    drop(node);
    ctx.drop_dir(&dir);
    let mut out = Outcome::ok(overlap && info.switches > 0);
    if overlap {
        out.classes.push("concurrent-writes-to-one-key");
    }
    out.counters.push(("yield_points", info.yields));
    out.counters.push(("context_switches", info.switches));
    out.fail = fail;
    Ok(out)
}

// ------------------------------------------------------------------ replicated part (cluster simulator)

#[derive(Clone, Debug, Serialize, Deserialize)]
pub struct RCase {
    pub n: usize,
    pub writes: Vec<Wr>,
    /// whether the cluster becomes quiet after write i before the next one
    pub settle: Vec<bool>,
    pub schedule: Vec<u16>,
}

pub fn run_repl(ctx: &Ctx, case: &RCase) -> Outcome {
    use crate::props::c04::{boot_cluster, chooser};
    let scratch = ctx.fresh_dir();
    let mut c = match boot_cluster(&scratch, case.n) {
        Ok(c) => c,
        Err(e) => {
            ctx.drop_dir(&scratch);
            return Outcome::failed("C19|set-up", e);
        }
    };
    let auth = format!("auth {} {}", crate::node::USER, crate::node::PWD);
    c.client(0, vec![auth.clone(), "create-db c ctok newer".into(), "use-db c ctok".into(), "set k k0".into(), "set k k1".into(), "set j j0".into()]);
    let mut fail: Option<(String, String)> = None;
    if !c.run(&mut |_| 0, 400_000) {
        fail = Some(("C19|set-up".into(), "no quiescence after set-up".into()));
    }
    let mut choose = chooser(case.schedule.clone());
    let mut stale = false;
    let mut in_flight = 0;
    if fail.is_none() {
        for (i, wr) in case.writes.iter().enumerate() {
            let (k, delta) = match wr {
                Wr::Plain { k } => (*k, None),
                Wr::Versioned { k, delta } | Wr::Api { k, delta } | Wr::Resolve { k, delta, .. } => (*k, Some(*delta)),
            };
            let key = KEYS[k];
            let cur = c.nodes[0].node.as_ref().unwrap().dump().get("c").and_then(|m| m.get(key).map(|v| v.1)).unwrap_or(0);
            let line = match delta {
                None => format!("set {} r{}", key, i),
                Some(d) => {
                    if d < 0 {
                        stale = true;
                    }
                    format!("set-safe {} {} r{}", key, (cur + d).max(0), i)
                }
            };
            let out = c.client(0, vec![auth.clone(), "use-db c ctok".into(), line.clone()]);
            if out.last().map(|o| o.starts_with("Error") || o.starts_with("VersionError")).unwrap_or(false) {
                fail = Some(("C19|refused|replicated".into(), format!("{:?} on the primary: {:?}", line, out.last())));
                break;
            }
            if case.settle.get(i).cloned().unwrap_or(true) {
                if !c.run(&mut choose, 400_000) {
                    fail = Some(("C19|no-quiescence".into(), format!("after {:?}", line)));
                    break;
                }
            } else {
                in_flight += 1;
            }
        }
    }
    if fail.is_none() && !c.run(&mut choose, 400_000) {
        fail = Some(("C19|no-quiescence".into(), "at the end".into()));
    }
    if fail.is_none() && !c.panics.is_empty() {
        fail = Some((format!("C19|panic|{}", c.panics[0].chars().skip(3).take(50).collect::<String>()), format!("{:?}", c.panics)));
    }
    if fail.is_none() {
        let p = c.nodes[0].node.as_ref().unwrap().dump();
        for i in 1..case.n {
            let d = c.nodes[i].node.as_ref().unwrap().dump();
            for key in KEYS {
                let pv = p.get("c").and_then(|m| m.get(key)).map(|v| v.0.clone());
                let iv = d.get("c").and_then(|m| m.get(key)).map(|v| v.0.clone());
                if pv != iv {
                    fail = Some((format!("C19|replica-differs|{}", if in_flight > 0 { "writes-in-flight-together" } else { "one-write-at-a-time" }), format!("key {}: primary {:?}, n{} {:?}; trace tail {:?}", key, pv, i, iv, c.trace_tail(20))));
                }
            }
        }
    }
    drop(c);
    ctx.drop_dir(&scratch);
    let mut out = Outcome::ok(stale);
    out.classes.push("replicated");
    out.fail = fail;
    out
}

fn guard(ctx: &Ctx, c: &CCase) -> Outcome {
    match run_conc(ctx, c) {
        Ok(o) => o,
        Err(e) => {
            eprintln!("C19: scheduler watchdog: {}", e);
            std::process::exit(2);
        }
    }
}

pub fn run(ctx: &Ctx, rep: &mut Report) {
    crate::interpose::virtual_clock(true);
    let dbk = || select(vec!["created", "created", "admin", "restored"]).prop_map(|s| s.to_string());
    let n = ctx.amount(16_000, 250_000);
    explore(ctx, rep, "sequential", n, (dbk(), prop::collection::vec(wr_strategy(true), 1..7)).prop_map(|(db, writes)| Case { db, writes }), |c| run_seq(ctx, c));
    let n2 = ctx.amount(10_000, 150_000);
    let cc = (dbk(), prop::collection::vec(prop::collection::vec(wr_strategy(false), 1..4), 2..3), prop::collection::vec(prop_oneof![3 => Just(0u16), 2 => any::<u16>()], 0..50)).prop_map(|(db, clients, schedule)| CCase { db, clients, schedule, snapshot: false, same_value: false }).prop_flat_map(|c| (prop::bool::weighted(0.4), prop::bool::weighted(0.4)).prop_map(move |(s, sv)| CCase { snapshot: s, same_value: s && sv, ..c.clone() }));
    explore(ctx, rep, "concurrent", n2, cc, |c| guard(ctx, c));
    let n3 = ctx.amount(480, 12_000);
    let rc = (2..4usize, prop::collection::vec((wr_strategy(false), prop::bool::weighted(0.5)), 1..7), prop::collection::vec(prop_oneof![3 => Just(0u16), 1 => any::<u16>()], 0..50))
        .prop_map(|(n, ws, schedule)| RCase { n, writes: ws.iter().map(|w| w.0.clone()).collect(), settle: ws.iter().map(|w| w.1).collect(), schedule });
    crate::report::explore_with(ctx, rep, "replicated", n3, 150, rc, |c| run_repl(ctx, c));
    // small scopes, exhaustively: every write sequence of length <=3 (quick) / <=4 (thorough) over a 14-letter alphabet
    // on each kind of newer database, and every schedule with at most two pre-emptions of the 2-client programs over
    // one key
    if rep.failures.is_empty() {
        let maxlen = if ctx.quick() { 3 } else { 4 };
        crate::report::enumerate(ctx, rep, &format!("sequential-exhaustive-len<={}", maxlen), seq_all(maxlen).into_iter(), |c| run_seq(ctx, c));
    }
    if rep.failures.is_empty() {
        let scheds = sched::bounded_schedules(if ctx.quick() { 12 } else { 20 }, 2);
        let mut cases = vec![];
        for db in ["created", "admin", "restored"] {
            for p in small_programs() {
                for s in scheds.iter() {
                    cases.push(CCase { db: db.to_string(), clients: p.clone(), schedule: s.clone(), snapshot: false, same_value: false });
                }
            }
        }
        crate::report::enumerate(ctx, rep, "two-clients-all-schedules-with-at-most-2-preemptions", cases.into_iter(), |c| guard(ctx, c));
    }
}

fn seq_alphabet() -> Vec<Wr> {
    let mut a = vec![];
    for k in 0..2usize {
        a.push(Wr::Plain { k });
        for delta in [-2, 0, 1] {
            a.push(Wr::Versioned { k, delta });
            a.push(Wr::Api { k, delta });
        }
    }
    a
}

fn seq_all(maxlen: usize) -> Vec<Case> {
    let alpha = seq_alphabet();
    let mut out = vec![];
    let mut level: Vec<Vec<Wr>> = vec![vec![]];
    for _ in 0..maxlen {
        let mut next = vec![];
        for p in level.iter() {
            for a in alpha.iter() {
                let mut q = p.clone();
                q.push(a.clone());
                next.push(q);
            }
        }
        for db in ["created", "admin", "restored"] {
            for q in next.iter() {
                out.push(Case { db: db.to_string(), writes: q.clone() });
            }
        }
        level = next;
    }
    out
}

fn small_programs() -> Vec<Vec<Vec<Wr>>> {
    let ops = vec![Wr::Plain { k: 0 }, Wr::Versioned { k: 0, delta: -1 }, Wr::Versioned { k: 0, delta: 0 }, Wr::Versioned { k: 0, delta: 1 }];
    let mut out = vec![];
    for a in ops.iter() {
        for b in ops.iter() {
            out.push(vec![vec![a.clone()], vec![b.clone()]]);
            for c in ops.iter() {
                out.push(vec![vec![a.clone(), c.clone()], vec![b.clone()]]);
            }
        }
    }
    out
}

pub fn replay(ctx: &Ctx, engine: &str, case: &J) -> Result<Option<(String, String)>, String> {
    crate::interpose::virtual_clock(true);
    if engine == "sequential" {
        replay_guarded::<Case>(ctx, case, |c| run_seq(ctx, c))
    } else if engine == "replicated" {
        replay_guarded::<RCase>(ctx, case, |c| run_repl(ctx, c))
    } else {
        replay_guarded::<CCase>(ctx, case, |c| guard(ctx, c))
    }
}
