//! C14 — every client operation causes a bounded message burst, then silence.
use crate::cluster::Cluster;
use crate::props::c04::{boot_cluster, chooser};
use crate::report::{enumerate, explore_with, replay_guarded, Ctx, Outcome, Report};
use proptest::prelude::*;
use proptest::sample::select;
use serde::{Deserialize, Serialize};
use serde_json::Value as J;

pub fn commands() -> Vec<&'static str> {
    vec![
        "get a", "get-safe a", "set a v", "set-safe a 1 v", "set-safe a 0 stale", "remove a", "remove zz", "increment n 2", "increment a 1", "keys a*", "watch a", "unwatch a", "unwatch-all",
        "snapshot false", "snapshot true", "snapshot false d|r", "snapshot true r|d|r|d", "snapshot false d", "create-db fresh ftok", "create-user u utok", "set-permissions u rw *", "arbiter", "cluster-state", "metrics-state", "debug list-dbs",
        "use-db d tok", "use-db d wrong", "RESOLVE", "CONFLICT",
    ]
}

#[derive(Clone, Debug, Serialize, Deserialize)]
pub struct Case {
    pub n: usize,
    /// node the client talks to
    pub at: usize,
    pub cmds: Vec<String>,
    pub schedule: Vec<u16>,
    /// conflict strategy of database d ("" = the default, "newer": a stale write wins or loses by time instead of being refused)
    #[serde(default)]
    pub d_strategy: String,
    /// node on which an arbiter client of database r stays connected during the commands (None = no arbiter connected)
    #[serde(default)]
    pub arbiter_at: Option<usize>,
    /// before the commands, `debug force-election` is sent to this node and the cluster settles: the commands then run in
    /// a cluster whose primary has changed (or was confirmed) by an election
    #[serde(default)]
    pub elect_at: Option<usize>,
}

fn conflict_id(c: &Cluster) -> Option<(String, i32)> {
    let d = c.nodes[0].node.as_ref().unwrap().dump();
    let r = d.get("r")?;
    for (k, v) in r.iter() {
        if let Some(id) = k.strip_prefix("$conflicts_k_") {
            if !v.0.starts_with("resolved") {
                // notice: resolve <opp_id> <db> <version> <key> <old> <new>
                let ver = v.0.split(' ').nth(3).and_then(|x| x.parse::<i32>().ok()).unwrap_or(0);
                return Some((id.to_string(), ver));
            }
        }
    }
    None
}

const STEP_BUDGET: u64 = 20_000;

pub fn run_case(ctx: &Ctx, case: &Case) -> Outcome {
    let scratch = ctx.fresh_dir();
    let mut c = match boot_cluster(&scratch, case.n) {
        Ok(c) => c,
        Err(e) => {
            ctx.drop_dir(&scratch);
            return Outcome::failed("C14|set-up", e);
        }
    };
    let auth = format!("auth {} {}", crate::node::USER, crate::node::PWD);
    c.client(0, vec![auth.clone(), format!("create-db d tok {}", case.d_strategy).trim_end().to_string(), "use-db d tok".into(), "set a a0".into(), "set a a1".into(), "set n 5".into()]);
    // an arbiter database with one pending conflict
    c.client(0, vec![auth.clone(), "create-db r rtok arbiter".into(), "use-db r rtok".into(), "set k k0".into(), "set k k1".into(), "arbiter".into(), "set-safe k 0 loser".into()]);
    let mut fail: Option<(String, String)> = None;
    if !c.run(&mut |_| 0, 400_000) {
        fail = Some(("C14|set-up".into(), "no quiescence after set-up".into()));
    }
    let mut arbiter_on_secondary = false;
    if let (Some(a), None) = (case.arbiter_at, &fail) {
        let a = a % case.n;
        arbiter_on_secondary = a != 0;
        let sid = c.open_session(a);
        c.session_send(sid, vec![auth.clone(), "use-db r rtok".into(), "arbiter".into()]);
        if !c.run(&mut |_| 0, 400_000) {
            fail = Some(("C14|set-up".into(), "no quiescence after the arbiter connected".into()));
        }
    }
    let mut primary_now = 0usize;
    if let (Some(e), None) = (case.elect_at, &fail) {
        let e = e % case.n;
        c.client(e, vec![auth.clone(), "debug force-election".into()]);
        if !c.run(&mut |_| 0, 400_000) {
            fail = Some(("C14|set-up".into(), "no quiescence after the forced election".into()));
        }
        let prim: Vec<usize> = (0..case.n).filter(|i| c.role(*i) == Some(nundb::bo::ClusterRole::Primary)).collect();
        if fail.is_none() && prim.len() != 1 {
            // not this property's business (C07): nothing to measure in a cluster without exactly one primary
            drop(c);
            ctx.drop_dir(&scratch);
            let mut o = Outcome::ok(false);
            o.classes.push("forced-election-did-not-leave-exactly-one-primary");
            return o;
        }
        primary_now = prim.first().cloned().unwrap_or(0);
    }
    let at = case.at % case.n;
    let secondaries = case.n - 1;
    let mut choose = chooser(case.schedule.clone());
    let mut any_traffic = false;
    let mut total_msgs = 0u64;
    for cmd in case.cmds.iter() {
        if fail.is_some() {
            break;
        }
        let (db, tok, line) = match cmd.as_str() {
            "RESOLVE" => match conflict_id(&c) {
                Some((id, ver)) => ("r", "rtok", format!("resolve {} r k {} winner", id, ver)),
                None => continue,
            },
            "CONFLICT" => ("r", "rtok", "set-safe k 0 another-loser".to_string()),
            l => ("d", "tok", l.to_string()),
        };
        let mark = c.delivered.len();
        let lines = if line.starts_with("use-db") { vec![auth.clone(), line.clone()] } else { vec![auth.clone(), format!("use-db {} {}", db, tok), line.clone()] };
        c.client(at, lines);
        // in slices: an exchange whose messages keep growing is stopped by a byte budget (8 MB for one client command)
        // long before it exhausts the memory
        let mut quiet = false;
        let mut steps_left = STEP_BUDGET;
        while steps_left > 0 {
            let slice = steps_left.min(400);
            steps_left -= slice;
            let first = steps_left + slice == STEP_BUDGET;
            if if first { c.run(&mut choose, slice) } else { c.run_continue(&mut choose, slice) } {
                quiet = true;
                break;
            }
            let bytes: usize = c.delivered[mark..].iter().map(|m| m.line.len()).sum();
            if bytes > 8 << 20 || c.runaway_line {
                break;
            }
        }
        let msgs: Vec<&crate::cluster::Msg> = c.delivered[mark..].iter().collect();
        let word = line.split(' ').next().unwrap_or("").to_string();
        let role = if at == primary_now {
            "on-primary"
        } else if case.arbiter_at.map(|a| a % case.n) == Some(at) {
            "on-secondary-with-the-arbiter-connected-there"
        } else if case.arbiter_at.map(|a| a % case.n != 0).unwrap_or(false) {
            "on-secondary-with-the-arbiter-on-another-secondary"
        } else {
            "on-secondary"
        };
        if !quiet {
            // find the repeating part of the trace
            let tail: Vec<String> = c.delivered.iter().rev().take(12).map(|m| format!("n{}->n{} {}", m.from, m.to, m.line.trim_end())).collect();
            let _ = role;
            fail = Some((format!("C14|traffic-does-not-stop|{}", word), format!("{:?} at n{}: still exchanging messages after {} scheduler steps ({} lines, {} bytes delivered); last lines (newest first): {:?}", line, at, STEP_BUDGET - steps_left, msgs.len(), msgs.iter().map(|m| m.line.len()).sum::<usize>(), tail.iter().map(|l| l.chars().take(300).collect::<String>()).collect::<Vec<_>>())));
            break;
        }
        // commands: lines a node sends on a link it opened; acknowledgements travel back on the same link
        let forwards = msgs.iter().filter(|m| m.dir == "c2s" && m.kind == "pri2sec").count();
        let copies = msgs.iter().filter(|m| m.dir == "c2s" && m.kind == "sec2pri").count();
        let fanout = msgs.iter().filter(|m| m.dir == "c2s" && m.kind == "sec2sec" && m.from != m.to).count();
        let acks = msgs.iter().filter(|m| m.dir == "s2c" && m.line.starts_with("ack ")).count();
        total_msgs += (forwards + copies + fanout + acks) as u64;
        if forwards + copies + fanout > 0 {
            any_traffic = true;
        }
        if case.elect_at.is_some() {
            // after a change of primary the links keep the kinds they were opened with: only the generic bound is
            // judged (command lines between different nodes: one forward if issued on a secondary + one copy per secondary)
            let lines_between_nodes = msgs.iter().filter(|m| m.dir == "c2s" && m.from != m.to).count();
            let bound = if at == primary_now { secondaries } else { secondaries + 1 };
            if lines_between_nodes > bound {
                let showl = msgs.iter().filter(|m| m.dir == "c2s" && m.from != m.to).map(|m| format!("n{}->n{}[{}] {}", m.from, m.to, m.kind, m.line.trim_end())).collect::<Vec<_>>();
                fail = Some((format!("C14|more-command-lines-than-one-forward-plus-one-copy-per-secondary|{}|{}|after-an-election", word, role), format!("{:?} at n{} (primary n{} after `debug force-election` at n{}): {} command lines between nodes, bound {}: {:?}", line, at, primary_now, case.elect_at.unwrap() % case.n, lines_between_nodes, bound, showl)));
            }
            continue;
        }
        let show = || msgs.iter().filter(|m| m.dir == "c2s" || m.line.starts_with("ack ")).map(|m| format!("n{}->n{}[{}] {}", m.from, m.to, m.kind, m.line.trim_end())).collect::<Vec<_>>();
        if fanout > 0 {
            fail = Some((format!("C14|secondary-fans-out|{}|{}", word, role), format!("{:?} at n{}: {} lines sent from a secondary to another secondary: {:?}", line, at, fanout, show())));
        } else if forwards > 1 {
            fail = Some((format!("C14|more-than-one-forward|{}|{}", word, role), format!("{:?} at n{}: {} forwards to the primary: {:?}", line, at, forwards, show())));
        } else if copies > secondaries {
            fail = Some((format!("C14|more-copies-than-secondaries|{}|{}", word, role), format!("{:?} at n{}: {} copies for {} secondaries: {:?}", line, at, copies, secondaries, show())));
        } else if acks > copies {
            fail = Some((format!("C14|more-acks-than-copies|{}|{}", word, role), format!("{:?} at n{}: {} acknowledgements for {} copies: {:?}", line, at, acks, copies, show())));
        }
    }
    if fail.is_none() && !c.panics.is_empty() {
        fail = Some((format!("C14|panic|{}", c.panics[0].chars().skip(3).take(50).collect::<String>()), format!("{:?}", c.panics)));
    }
    drop(c);
    ctx.drop_dir(&scratch);
    let mut out = Outcome::ok(any_traffic);
    out.counters.push(("inter_node_messages", total_msgs));
    if any_traffic {
        out.classes.push("command-caused-inter-node-messages");
    }
    if case.elect_at.is_some() {
        out.classes.push("commands-after-a-forced-election");
    }
    if arbiter_on_secondary && case.cmds.iter().any(|c| c == "CONFLICT" || c == "RESOLVE") {
        out.classes.push("conflict-or-resolution-with-the-arbiter-connected-to-a-secondary");
    }
    out.fail = fail;
    out
}

fn all_single() -> Vec<Case> {
    let mut v = vec![];
    for n in [2usize, 3] {
        for at in 0..n {
            for cmd in commands() {
                for schedule in [vec![], vec![40000u16, 0, 0, 20000, 0, 65535, 0, 0, 30000, 0, 0, 0, 50000]] {
                    v.push(Case { n, at, cmds: vec![cmd.to_string()], schedule, arbiter_at: None, elect_at: None, d_strategy: String::new() });
                }
            }
            // the replicated commands after a forced election at each node
            for e in 0..n {
                for cmd in ["set a v", "increment n 2", "remove a", "set-safe a 1 v", "create-user u utok", "snapshot false"] {
                    v.push(Case { n, at, cmds: vec![cmd.to_string()], schedule: vec![], arbiter_at: None, elect_at: Some(e), d_strategy: String::new() });
                }
            }
            // the writes on a database whose conflicts are settled by time
            for cmd in ["set a v", "set-safe a 1 v", "set-safe a 0 stale", "set-safe a 7 ahead", "increment n 2", "remove a"] {
                v.push(Case { n, at, cmds: vec![cmd.to_string()], schedule: vec![], arbiter_at: None, elect_at: None, d_strategy: "newer".into() });
            }
            // conflicts found and resolved while an arbiter client is connected to each node
            for arb in 0..n {
                for cmds in [vec!["CONFLICT"], vec!["RESOLVE"], vec!["CONFLICT", "CONFLICT"], vec!["CONFLICT", "RESOLVE"]] {
                    v.push(Case { n, at, cmds: cmds.iter().map(|s| s.to_string()).collect(), schedule: vec![], arbiter_at: Some(arb), elect_at: None, d_strategy: String::new() });
                }
            }
        }
    }
    v
}

pub fn run(ctx: &Ctx, rep: &mut Report) {
    enumerate(ctx, rep, "every-command-on-every-node", all_single().into_iter(), |c| run_case(ctx, c));
    if rep.failures.is_empty() {
        let n = ctx.amount(600, 20_000);
        let strat = (2..4usize, 0..3usize, prop::collection::vec(select(commands()), 2..4), prop::collection::vec(prop_oneof![3 => Just(0u16), 1 => any::<u16>()], 0..40), prop_oneof![2 => Just(None), 1 => (0..3usize).prop_map(Some)], prop_oneof![3 => Just(None), 1 => (0..3usize).prop_map(Some)], select(vec!["", "", "newer"])).prop_map(|(n, at, cmds, schedule, arbiter_at, elect_at, d_strategy)| Case { n, at, cmds: cmds.into_iter().map(|s| s.to_string()).collect(), schedule, arbiter_at: if elect_at.is_some() { None } else { arbiter_at }, elect_at, d_strategy: d_strategy.to_string() });
        explore_with(ctx, rep, "command-sequences", n, 150, strat, |c| run_case(ctx, c));
    }
}

pub fn replay(ctx: &Ctx, _engine: &str, case: &J) -> Result<Option<(String, String)>, String> {
    replay_guarded::<Case>(ctx, case, |c| run_case(ctx, c))
}
