//! C12 — the op-log catch-up query never misses an operation; last-op time; rotation retention.
use crate::node::use_dir;
use crate::report::{enumerate, explore, explore_with, replay_guarded, Ctx, Outcome, Report};
use nundb::bo::ReplicateOpp;
use nundb::disk_ops::{read_operations_since, Oplog};
use proptest::prelude::*;
use proptest::sample::select;
use serde::{Deserialize, Serialize};
use serde_json::Value as J;
use std::collections::BTreeMap;
use std::panic::{catch_unwind, AssertUnwindSafe};

const REC: usize = 25;

#[derive(Clone, Debug, Serialize, Deserialize, PartialEq)]
pub enum Rec {
    /// update (0) / remove (1) of a key
    Key { db: u64, key: u64, remove: bool, dt: u64 },
    CreateDb { db: u64, dt: u64 },
    /// one replicate-snapshot of several databases: one record per database, all with the SAME timestamp
    Snapshot { dbs: Vec<u64>, dt: u64 },
    /// the replication thread is restarted (file reopened; rotation happens here if the file is full)
    Reopen,
    /// the periodic declutter step (drops old rotated files)
    Declutter,
}

#[derive(Clone, Debug, Serialize, Deserialize)]
pub struct Case {
    pub recs: Vec<Rec>,
    /// explicit `since` probes (in addition to the systematic ones) as offsets from the first timestamp
    pub extra_since: Vec<u64>,
    /// the first timestamp is in the year 2100 instead of 1000 ns after the epoch: every log file is older (by its file
    /// times) than every `since` that is asked for. Operation ids are wall-clock nanoseconds in the server; how they
    /// relate to the times of the files must not matter
    #[serde(default)]
    pub far_future: bool,
}

fn rec_strategy(rotation: bool) -> BoxedStrategy<Rec> {
    let dt = select(vec![1u64, 1, 2, 7]);
    let base = prop_oneof![
        8 => (select(vec![1u64, 2]), select(vec![10u64, 11, 1, 2]), any::<bool>(), dt.clone()).prop_map(|(db, key, remove, dt)| Rec::Key { db, key, remove, dt }),
        1 => (select(vec![1u64, 2]), dt.clone()).prop_map(|(db, dt)| Rec::CreateDb { db, dt }),
        2 => (select(vec![vec![1u64], vec![2], vec![1, 2], vec![2, 1]]), dt.clone()).prop_map(|(dbs, dt)| Rec::Snapshot { dbs, dt }),
    ];
    if rotation {
        prop_oneof![20 => base, 1 => Just(Rec::Reopen), 1 => Just(Rec::Declutter)].boxed()
    } else {
        base.boxed()
    }
}

#[derive(Clone, Debug)]
struct Flat {
    ts: u64,
    db: u64,
    key: u64,
    kind: u8,
}

/// linear scan of one file
fn scan_file(path: &std::path::Path) -> Vec<Flat> {
    let bytes = std::fs::read(path).unwrap_or_default();
    let mut out = vec![];
    let mut i = 0;
    while i + REC <= bytes.len() {
        let ts = u64::from_le_bytes(bytes[i..i + 8].try_into().unwrap());
        let key = u64::from_le_bytes(bytes[i + 8..i + 16].try_into().unwrap());
        let db = u64::from_le_bytes(bytes[i + 16..i + 24].try_into().unwrap());
        out.push(Flat { ts, db, key, kind: bytes[i + 24] });
        i += REC;
    }
    out
}

/// all files, oldest first: rotated files (their names carry the rotation op id) then the current file
fn scan_all(dir: &str) -> (Vec<Flat>, usize) {
    let mut files: Vec<std::path::PathBuf> = vec![];
    if let Ok(rd) = std::fs::read_dir(format!("{}/oplog", dir)) {
        for e in rd.flatten() {
            if e.file_name().to_string_lossy().ends_with(".op") {
                files.push(e.path());
            }
        }
    }
    files.sort_by_key(|p| {
        let n = p.file_name().unwrap().to_string_lossy().to_string();
        n.trim_start_matches("oplog-nun-").trim_end_matches(".op").parse::<u128>().unwrap_or(0)
    });
    let nfiles = files.len() + 1;
    let mut out = vec![];
    for f in files {
        out.extend(scan_file(&f));
    }
    out.extend(scan_file(std::path::Path::new(&format!("{}/oplog-nun.op", dir))));
    (out, nfiles)
}

fn kind_of(opp: &ReplicateOpp) -> u8 {
    opp.to_u8()
}

fn check_queries(dir: &str, extra: &[u64], flags: &mut Flags) -> Option<(String, String)> {
    let (log, nfiles) = scan_all(dir);
    flags.files = flags.files.max(nfiles);
    flags.records = log.len();
    let files_cls = if nfiles > 1 { "rotated-files" } else { "one-file" };
    // last_op_time
    let want_last = log.iter().map(|r| r.ts).max().unwrap_or(0);
    let got_last = match catch_unwind(AssertUnwindSafe(Oplog::last_op_time)) {
        Ok(v) => v,
        Err(e) => return Some((format!("C12|last-op-time|panic|{}", files_cls), crate::node::panic_text(e))),
    };
    if got_last != want_last {
        let cur_empty = scan_file(std::path::Path::new(&format!("{}/oplog-nun.op", dir))).is_empty();
        return Some((
            format!("C12|last-op-time|{}|{}", files_cls, if cur_empty { "current-file-empty" } else { "current-file-nonempty" }),
            format!("last_op_time()={} but the newest record has timestamp {} ({} records in {} files)", got_last, want_last, log.len(), nfiles),
        ));
    }
    if log.is_empty() {
        let got = read_operations_since(0);
        if !got.is_empty() {
            return Some(("C12|empty-log-returns-entries".into(), format!("{} entries from an empty log", got.len())));
        }
        return None;
    }
    let first = log.first().unwrap().ts;
    let last = log.iter().map(|r| r.ts).max().unwrap();
    let mut sinces: Vec<u64> = vec![0, first.saturating_sub(1), last + 1];
    for r in &log {
        sinces.push(r.ts);
        sinces.push(r.ts + 1);
        sinces.push(r.ts.saturating_sub(1));
    }
    for e in extra {
        sinces.push(first + e);
    }
    sinces.sort();
    sinces.dedup();
    if sinces.len() > 60 {
        // long logs: keep the ends and a spread of the middle
        let step = sinces.len() / 50 + 1;
        let mut keep: Vec<u64> = sinces.iter().cloned().step_by(step).collect();
        keep.extend(sinces.iter().rev().take(5));
        keep.extend(sinces.iter().take(5));
        keep.sort();
        keep.dedup();
        sinces = keep;
    }
    let has_equal = log.windows(2).any(|w| w[0].ts == w[1].ts);
    for since in sinces {
        // the reference: a linear scan
        // one slot per (database, key) for key operations, one per database for its create-db and one for its snapshot
        // records (those carry the fixed key ids 1 and 2, which real keys have as well: key ids are handed out from 0)
        let class = |kind: u8| -> u8 { if kind <= 1 { 0 } else { kind } };
        let mut want: BTreeMap<(u64, u64, u8), u8> = BTreeMap::new();
        for r in log.iter() {
            if r.ts >= since {
                want.insert((r.db, r.key, class(r.kind)), 0);
            }
        }
        for (k, v) in want.iter_mut() {
            *v = log.iter().rev().find(|r| (r.db, r.key, class(r.kind)) == *k).unwrap().kind;
        }
        if since > first && since <= last && log.len() >= 3 {
            flags.inside = true;
        }
        let got = match catch_unwind(AssertUnwindSafe(|| read_operations_since(since))) {
            Ok(g) => g,
            Err(e) => return Some((format!("C12|query-panic|{}", files_cls), format!("read_operations_since({}) panicked: {}", since, crate::node::panic_text(e)))),
        };
        let since_cls = if since == 0 {
            "since-zero"
        } else if since < first {
            "since-before-first"
        } else if since > last {
            "since-after-last"
        } else if log.iter().any(|r| r.ts == since) {
            "since-at-record"
        } else {
            "since-between"
        };
        for ((db, key, cls), kind) in want.iter() {
            // (whatever the map's own keys are: the entry is found by what it describes)
            match got.values().find(|rec| rec.db == *db && rec.key == *key && class(kind_of(&rec.opp)) == *cls) {
                None => {
                    if got.values().any(|rec| rec.db == *db && rec.key == *key) {
                        return Some((
                            format!("C12|missing|shadowed-by-a-record-of-another-kind-with-the-same-ids|{}", files_cls),
                            format!("since={}: (db {}, key id {}) has a {} record at/after since, but the only entry returned for these ids is {:?}; log={:?}", since, db, key, if *cls == 0 { "key" } else if *cls == 2 { "create-db" } else { "snapshot" }, got.values().filter(|rec| rec.db == *db && rec.key == *key).map(|rec| kind_of(&rec.opp)).collect::<Vec<_>>(), log.iter().map(|r| (r.ts, r.db, r.key, r.kind)).collect::<Vec<_>>()),
                        ));
                    }
                    let at_equal = log.windows(2).any(|w| w[0].ts == w[1].ts && (w[0].ts == since || w[1].ts >= since) && ((w[0].db, w[0].key) == (*db, *key) || (w[1].db, w[1].key) == (*db, *key)));
                    return Some((
                        format!("C12|missing|{}|{}|{}", files_cls, since_cls, if has_equal && at_equal { "equal-timestamps" } else { "distinct-timestamps" }),
                        format!("since={}: (db {}, key {}) has a record at/after since but is not returned; log={:?}", since, db, key, log.iter().map(|r| (r.ts, r.db, r.key, r.kind)).collect::<Vec<_>>()),
                    ));
                }
                Some(rec) => {
                    if kind_of(&rec.opp) != *kind {
                        return Some((
                            format!("C12|wrong-label|{}|{}", files_cls, since_cls),
                            format!("since={}: (db {}, key {}) labelled {} but its most recent record is kind {}; log={:?}", since, db, key, kind_of(&rec.opp), kind, log.iter().map(|r| (r.ts, r.db, r.key, r.kind)).collect::<Vec<_>>()),
                        ));
                    }
                }
            }
        }
        flags.queries += 1;
    }
    None
}

#[derive(Default)]
struct Flags {
    files: usize,
    records: usize,
    inside: bool,
    queries: u64,
    declutters: u32,
}

pub fn run_case(ctx: &Ctx, case: &Case) -> Outcome {
    let dir = ctx.fresh_dir();
    use_dir(&dir);
    let max_size: u64 = std::env::var("NUN_MAX_OP_LOG_SIZE").ok().and_then(|s| s.parse().ok()).unwrap_or(1073741824);
    let mut stream = Some(Oplog::get_log_file_append_mode());
    let mut ts: u64 = if case.far_future { 4_102_444_800_000_000_000 } else { 1000 };
    let mut flags = Flags::default();
    let mut fail = None;
    let mut soft_fail: Option<(String, String)> = None;
    // a node needed only for declutter
    let mut node: Option<crate::node::Node> = None;
    // what the harness asked the writer to append, in order
    let mut written: Vec<(u64, u64, u64, u8)> = vec![];
    'outer: for rec in case.recs.iter() {
        let mut writes: Vec<(u64, u64, u8)> = vec![];
        match rec {
            Rec::Key { db, key, remove, dt } => {
                ts += dt;
                writes.push((*db, *key, if *remove { 1 } else { 0 }));
            }
            Rec::CreateDb { db, dt } => {
                ts += dt;
                writes.push((*db, 1, 2));
            }
            Rec::Snapshot { dbs, dt } => {
                ts += dt;
                for d in dbs {
                    writes.push((*d, 2, 3));
                }
            }
            Rec::Reopen => {
                stream = None;
                stream = Some(Oplog::get_log_file_append_mode());
            }
            Rec::Declutter => {
                let (before, _) = scan_all(&dir);
                if node.is_none() {
                    node = Some(crate::node::Node::boot(&dir, "127.0.0.1:3017", 1));
                }
                nundb::disk_ops::verif_declutter(&node.as_ref().unwrap().dbs);
                flags.declutters += 1;
                let (after, _) = scan_all(&dir);
                // every record inside the newest NUN_MAX_OP_LOG_SIZE bytes of the log must survive
                let keep = (max_size as usize / REC).min(before.len());
                let newest = &before[before.len() - keep..];
                // newest first, so the report names the most recent dropped record
                for (age, r) in newest.iter().rev().enumerate() {
                    if !after.iter().any(|a| a.ts == r.ts && a.db == r.db && a.key == r.key && a.kind == r.kind) {
                        // how deep inside the configured size is it? (the oldest tenth is the granularity of one file)
                        let depth = if (age + 1) * REC * 10 <= max_size as usize * 9 { "within-newest-nine-tenths" } else { "in-oldest-tenth" };
                        // soft: the rest of the case is still checked, another failure takes precedence
                        if soft_fail.is_none() {
                            soft_fail = Some((format!("C12|retention|record-within-log-size-dropped|{}", depth), format!("declutter dropped record ts={} (record #{} counted from the newest) which is within the newest {} bytes ({} records before, {} after)", r.ts, age + 1, max_size, before.len(), after.len())));
                        }
                        break;
                    }
                }
            }
        }
        for (db, key, kind) in writes {
            let r = Oplog::try_write_op_log(stream.as_mut().unwrap(), Some(db), key, &ReplicateOpp::from(kind), ts);
            if r.is_err() {
                fail = Some(("C12|write-refused".to_string(), format!("try_write_op_log refused: {:?}", r)));
                break 'outer;
            }
            written.push((ts, db, key, kind_of(&ReplicateOpp::from(kind))));
        }
    }
    if fail.is_none() {
        // the files hold exactly what was appended: the same records in the same order (the record that crosses the
        // size limit is written at the end of the old file and again at the start of the new one; a declutter drops
        // whole old files, so then the files hold a suffix)
        let (log, nfiles) = scan_all(&dir);
        let mut on_disk: Vec<(u64, u64, u64, u8)> = log.iter().map(|r| (r.ts, r.db, r.key, r.kind)).collect();
        on_disk.dedup();
        let files_cls = if nfiles > 1 { "rotated-files" } else { "one-file" };
        let ok = if flags.declutters == 0 { on_disk == written } else { written.ends_with(&on_disk) };
        if !ok {
            let first_bad = on_disk.iter().enumerate().find(|(i, r)| {
                let off = written.len() as i64 - on_disk.len() as i64 + *i as i64;
                off < 0 || written.get(off as usize) != Some(*r)
            });
            fail = Some((format!("C12|files-differ-from-what-was-appended|{}", files_cls), format!("{} records appended, {} distinct consecutive records in {} file(s); first record on disk that is not the appended one (index, (ts, db id, key id, kind)): {:?}; appended tail {:?}", written.len(), on_disk.len(), nfiles, first_bad, written.iter().rev().take(6).collect::<Vec<_>>())));
        }
    }
    if fail.is_none() {
        fail = check_queries(&dir, &case.extra_since, &mut flags);
    }
    if fail.is_none() {
        fail = soft_fail;
    }
    drop(stream);
    drop(node);
    ctx.drop_dir(&dir);
    let nontrivial = (flags.records >= 3 && flags.inside) || flags.files >= 2;
    let mut out = Outcome::ok(nontrivial);
    if flags.files >= 2 {
        out.classes.push("rotated-files");
    }
    if flags.inside {
        out.classes.push("since-inside-range");
    }
    if flags.declutters > 0 {
        out.classes.push("declutter");
    }
    out.counters.push(("queries", flags.queries));
    out.counters.push(("records", flags.records as u64));
    out.fail = fail;
    out
}

fn small_alphabet() -> Vec<Rec> {
    vec![
        Rec::Key { db: 1, key: 10, remove: false, dt: 1 },
        Rec::Key { db: 1, key: 10, remove: true, dt: 1 },
        Rec::Key { db: 1, key: 2, remove: false, dt: 2 },
        Rec::Key { db: 2, key: 10, remove: false, dt: 1 },
        Rec::CreateDb { db: 2, dt: 1 },
        Rec::Snapshot { dbs: vec![1, 2], dt: 1 },
        Rec::Snapshot { dbs: vec![1], dt: 2 },
    ]
}

fn sequences(alpha: &[Rec], len: usize) -> impl Iterator<Item = Case> + '_ {
    let n = alpha.len();
    let total = n.pow(len as u32);
    (0..total).map(move |mut i| {
        let mut recs = Vec::with_capacity(len);
        for _ in 0..len {
            recs.push(alpha[i % n].clone());
            i /= n;
        }
        Case { recs, extra_since: vec![], far_future: false }
    })
}

pub fn run(ctx: &Ctx, rep: &mut Report) {
    crate::interpose::virtual_clock(true);
    let small_max = std::env::var("NUN_MAX_OP_LOG_SIZE").is_ok();
    if small_max {
        // rotation workers: logs long enough to fill several files
        let n = ctx.amount(3000, 60_000);
        let strat = (prop::collection::vec(rec_strategy(true), 0..400), prop::collection::vec(0..400u64, 0..3), prop::bool::weighted(0.3)).prop_map(|(recs, extra_since, far_future)| Case { recs, extra_since, far_future });
        explore_with(ctx, rep, "rotation", n * 2, 400, strat, |c| run_case(ctx, c));
    } else {
        let n = ctx.amount(40_000, 1_000_000);
        let strat = (prop::collection::vec(rec_strategy(false), 0..13), prop::collection::vec(0..40u64, 0..3), prop::bool::weighted(0.3)).prop_map(|(recs, extra_since, far_future)| Case { recs, extra_since, far_future });
        explore(ctx, rep, "single-file", n * 2, strat, |c| run_case(ctx, c));
        let n2 = ctx.amount(300, 6000);
        let strat = (prop::collection::vec(rec_strategy(false), 100..3000), prop::collection::vec(0..4000u64, 0..3), prop::bool::weighted(0.3)).prop_map(|(recs, extra_since, far_future)| Case { recs, extra_since, far_future });
        explore_with(ctx, rep, "long-single-file", n2 * 2, 200, strat, |c| run_case(ctx, c));
    }
    // short logs exhaustively (every worker: these fit in one file under every configuration)
    let alpha = small_alphabet();
    let max_len = ctx.amount(4, 6) as usize;
    for len in 0..=max_len {
        if !rep.failures.is_empty() {
            break;
        }
        enumerate(ctx, rep, &format!("exhaustive-len{}", len), sequences(&alpha, len), |c| run_case(ctx, c));
    }
}

pub fn replay(ctx: &Ctx, _engine: &str, case: &J) -> Result<Option<(String, String)>, String> {
    crate::interpose::virtual_clock(true);
    replay_guarded::<Case>(ctx, case, |c| run_case(ctx, c))
}
