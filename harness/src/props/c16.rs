//! C16 — after any restart the op-log is either discarded or still decodes correctly; ids are unique.
use crate::crash;
use crate::node::{probe_boot, Node, Session};
use crate::report::{enumerate, explore_with, replay_guarded, Ctx, Outcome, Report};
use proptest::prelude::*;
use serde::{Deserialize, Serialize};
use serde_json::Value as J;
use std::collections::{BTreeMap, BTreeSet};
use std::panic::{catch_unwind, AssertUnwindSafe};

#[derive(Clone, Debug, Serialize, Deserialize, PartialEq)]
pub enum Step {
    CreateDb { db: usize },
    /// write key `k<key>` of the database (the first write of a key registers its id)
    Write { db: usize, key: usize },
    Remove { db: usize, key: usize },
    /// snapshot of the databases in the bit mask, then the declutter tick
    Snapshot { mask: u8 },
    RestartClean,
    RestartKill,
}

#[derive(Clone, Debug, Serialize, Deserialize)]
pub struct Case {
    pub steps: Vec<Step>,
    /// the step during which every mutating syscall is a crash point (images are booted and judged)
    pub crash_at: Option<usize>,
}

pub fn step_strategy() -> impl Strategy<Value = Step> {
    let db = 0..4usize;
    prop_oneof![
        3 => db.clone().prop_map(|db| Step::CreateDb { db }),
        5 => (db.clone(), 0..5usize).prop_map(|(db, key)| Step::Write { db, key }),
        1 => (db.clone(), 0..5usize).prop_map(|(db, key)| Step::Remove { db, key }),
        3 => (1..16u8).prop_map(|mask| Step::Snapshot { mask }),
        2 => Just(Step::RestartClean),
        2 => Just(Step::RestartKill),
    ]
}

pub fn case_strategy() -> impl Strategy<Value = Case> {
    (prop::collection::vec(step_strategy(), 2..13), prop::option::weighted(0.35, 0..12usize)).prop_map(|(steps, c)| {
        let crash_at = c.map(|i| i % steps.len());
        Case { steps, crash_at }
    })
}

#[derive(Clone, Debug, PartialEq, Eq, PartialOrd, Ord)]
struct Rec {
    ts: u64,
    key: u64,
    db: u64,
    kind: u8,
}

fn scan_file(path: &std::path::Path) -> Vec<Rec> {
    let bytes = std::fs::read(path).unwrap_or_default();
    let mut out = vec![];
    let mut i = 0;
    while i + 25 <= bytes.len() {
        out.push(Rec {
            ts: u64::from_le_bytes(bytes[i..i + 8].try_into().unwrap()),
            key: u64::from_le_bytes(bytes[i + 8..i + 16].try_into().unwrap()),
            db: u64::from_le_bytes(bytes[i + 16..i + 24].try_into().unwrap()),
            kind: bytes[i + 24],
        });
        i += 25;
    }
    out
}

fn scan_all(dir: &str) -> Vec<Rec> {
    let mut out = vec![];
    if let Ok(rd) = std::fs::read_dir(format!("{}/oplog", dir)) {
        for e in rd.flatten() {
            if e.file_name().to_string_lossy().ends_with(".op") {
                out.extend(scan_file(&e.path()));
            }
        }
    }
    out.extend(scan_file(std::path::Path::new(&format!("{}/oplog-nun.op", dir))));
    out
}

/// what the harness knows each record was written for: ts -> set of (db name, key name or "", kind)
type Expected = BTreeMap<Rec, BTreeSet<(String, String, u8)>>;

struct World {
    node: Option<Node>,
    dir: String,
    admin: Session,
    expected: Expected,
    seen: BTreeSet<Rec>,
    /// databases that exist in memory
    dbs: BTreeSet<usize>,
    created_total: usize,
    partial_load_then_create: bool,
    restarts: u32,
    kept_logs: u32,
    discarded_logs: u32,
    known_hits: BTreeMap<String, u64>,
    /// database incarnations ("d0#2") that existed before some restart and were gone after it (never snapshotted)
    lost: BTreeSet<String>,
    /// how many times each database name has been created so far
    inc: [u32; 4],
}

fn dbn(i: usize) -> String {
    format!("d{}", i)
}

fn connect_admin(node: &Node) -> Session {
    let mut a = Session::new();
    a.auth(node);
    a
}

/// after a command: the records that appeared belong to `cands`
fn absorb(w: &mut World, cands: &[(String, String, u8)], positional: bool) {
    let all = scan_all(&w.dir);
    let mut fresh: Vec<Rec> = all.into_iter().filter(|r| !w.seen.contains(r)).collect();
    // (the record that crosses the file-size limit is written at the end of the old file and again at the start of the
    // new one: one record)
    fresh.dedup();
    for (j, r) in fresh.iter().enumerate() {
        w.seen.insert(r.clone());
        let e = w.expected.entry(r.clone()).or_default();
        if positional && fresh.len() == cands.len() {
            // one record per named database, in the order they were named
            e.insert(cands[j].clone());
        } else {
            for c in cands {
                e.insert(c.clone());
            }
        }
    }
}

fn ids_unique(node: &Node) -> Option<(String, String)> {
    let dbs = node.dbs.map.read().unwrap();
    let mut by_id: BTreeMap<usize, Vec<String>> = BTreeMap::new();
    for (name, db) in dbs.iter() {
        by_id.entry(db.metadata.id).or_default().push(name.clone());
    }
    for (id, names) in by_id {
        if names.len() > 1 {
            let mut names = names;
            names.sort();
            return Some(("C16|two-databases-share-an-id".to_string(), format!("databases {:?} all have id {}", names, id)));
        }
    }
    let km = node.dbs.keys_map.read().unwrap();
    let mut by_kid: BTreeMap<u64, Vec<String>> = BTreeMap::new();
    for (k, id) in km.iter() {
        by_kid.entry(*id).or_default().push(k.clone());
    }
    for (id, ks) in by_kid {
        if ks.len() > 1 {
            return Some(("C16|two-keys-share-an-id".to_string(), format!("keys {:?} all have id {}", ks, id)));
        }
    }
    None
}

/// the oracle after a (re)start of `dir`
fn judge_boot(ctx: &Ctx, known_hits: &mut BTreeMap<String, u64>, lost: &BTreeSet<String>, inc: &[u32; 4], node: &Node, dir: &str, expected: &Expected, how: &str) -> Option<(String, String)> {
    let qualify = |name: &String| -> String {
        match name.strip_prefix('d').and_then(|n| n.parse::<usize>().ok()) {
            Some(i) if i < 4 => format!("{}#{}", name, inc[i]),
            _ => name.clone(),
        }
    };
    let recs = scan_all(dir);
    if std::env::var("NV_C16_DEBUG").is_ok() && node.oplog_discarded_at_boot {
        eprintln!("    judge {}: the start-up discarded the log", how);
    }
    if node.oplog_discarded_at_boot {
        // discarded: nothing of the old log may be left, the node asks for a full resynchronisation (last op time 0)
        let old: Vec<&Rec> = recs.iter().filter(|r| expected.contains_key(*r)).collect();
        crate::node::use_dir(dir);
        let last = nundb::disk_ops::Oplog::last_op_time();
        if !old.is_empty() || last != 0 {
            return Some((format!("C16|discarded-log-still-there|{}", how), format!("the start-up discarded the op-log but {} old records survive, last_op_time()={}", old.len(), last)));
        }
        return None;
    }
    let id_db = node.dbs.id_name_db_map.read().unwrap().clone();
    let id_key = node.dbs.id_keys_map.read().unwrap().clone();
    if std::env::var("NV_C16_DEBUG").is_ok() {
        eprintln!("    judge {}: kept log, {} records, expected {} of them, key ids {:?}, db ids {:?}", how, recs.len(), recs.iter().filter(|r| expected.contains_key(*r)).count(), id_key, id_db);
    }
    let mut dangling = false;
    for r in recs.iter() {
        let cands = match expected.get(r) {
            Some(c) => c,
            None => continue, // written by this very start-up (election records are not logged; defensive)
        };
        let dbname = id_db.get(&r.db).map(|n| qualify(n));
        let keyname = if r.kind <= 1 { id_key.get(&r.key).cloned() } else { Some(String::new()) };
        let ok = match (&dbname, &keyname) {
            (Some(d), Some(k)) => cands.iter().any(|(cd, ck, ckind)| cd == d && ck == k && *ckind == r.kind),
            _ => false,
        };
        let of_lost_db = cands.iter().all(|(cd, _, _)| lost.contains(cd));
        if !ok && of_lost_db {
            // a record of a database that is gone after a restart (it was never snapshotted): it decodes to
            // nothing, or to whichever database was given the free id later
            let sig = "C16|kept-log-does-not-decode|database-id-unknown".to_string();
            if ctx.is_known(&sig) {
                *known_hits.entry(sig).or_insert(0) += 1;
                dangling = true;
                continue;
            }
            return Some((sig, format!("[{}] record {:?} was written for {:?}; after the restart no database has id {}", how, r, cands, r.db)));
        }
        if !ok {
            let what = if dbname.is_none() {
                "database-id-unknown"
            } else if keyname.is_none() {
                "key-id-unknown"
            } else if !cands.iter().any(|(cd, _, _)| Some(cd) == dbname.as_ref()) {
                "decodes-to-another-database"
            } else {
                "decodes-to-another-key"
            };
            return Some((format!("C16|kept-log-does-not-decode|{}|{}", what, how), format!("record {:?} was written for {:?} but decodes to db {:?} key {:?} after the restart", r, cands, dbname, keyname)));
        }
    }
    if dangling {
        // (the implementation's decoder unwraps the same lookup: already counted above)
        return ids_unique(node);
    }
    // the implementation's own decoder must get through the whole log too
    crate::node::use_dir(dir);
    let dbs = node.dbs.clone();
    if let Err(e) = catch_unwind(AssertUnwindSafe(|| nundb::replication_ops::get_pendding_opps_since(1, &dbs))) {
        return Some((format!("C16|kept-log-decoder-panics|{}", how), format!("get_pendding_opps_since(1) panicked: {} at {}", crate::node::panic_text(e), crate::node::last_panic_loc())));
    }
    ids_unique(node)
}

fn exec(ctx: &Ctx, w: &mut World, st: &Step) -> Option<(String, String)> {
    match st {
        Step::CreateDb { db } => {
            if w.dbs.contains(db) {
                return None;
            }
            // (a re-created database is a new database: records of its lost namesake stay "lost")
            let node = w.node.as_mut().unwrap();
            if w.restarts > 0 && w.created_total > w.dbs.len() {
                w.partial_load_then_create = true;
            }
            w.admin.send(node, &format!("create-db {} t{}", dbn(*db), db));
            node.pump();
            w.dbs.insert(*db);
            w.created_total += 1;
            w.inc[*db] += 1;
            let q = format!("{}#{}", dbn(*db), w.inc[*db]);
            absorb(w, &[(q, String::new(), 2)], false);
            let node = w.node.as_ref().unwrap();
            ids_unique(node)
        }
        Step::Write { db, key } | Step::Remove { db, key } => {
            if !w.dbs.contains(db) {
                return None;
            }
            let node = w.node.as_mut().unwrap();
            let mut s = Session::new();
            s.send(node, &format!("use-db {} t{}", dbn(*db), db));
            let (line, kind) = if let Step::Write { .. } = st { (format!("set k{} v", key), 0u8) } else { (format!("remove k{}", key), 1u8) };
            s.send(node, &line);
            node.pump();
            let _ = s.disconnect(node);
            node.pump();
            // the session's own $connections bookkeeping is replicated too (key "$connections")
            let q = format!("{}#{}", dbn(*db), w.inc[*db]);
            absorb(w, &[(q.clone(), format!("k{}", key), kind), (q, "$connections".to_string(), 0)], false);
            let node = w.node.as_ref().unwrap();
            ids_unique(node)
        }
        Step::Snapshot { mask } => {
            let names: Vec<String> = (0..4).filter(|i| mask & (1 << i) != 0 && w.dbs.contains(i)).map(dbn).collect();
            if names.is_empty() {
                return None;
            }
            let node = w.node.as_mut().unwrap();
            w.admin.send(node, &format!("snapshot false {}", names.join("|")));
            node.pump();
            node.snapshot_tick();
            let inc = w.inc;
            let cands: Vec<(String, String, u8)> = names.iter().map(|n| (format!("{}#{}", n, inc[n[1..].parse::<usize>().unwrap()]), String::new(), 3)).collect();
            absorb(w, &cands, true);
            None
        }
        Step::RestartClean | Step::RestartKill => {
            if *st == Step::RestartClean {
                w.node.as_ref().unwrap().shutdown();
            }
            w.node = None;
            let dir = w.dir.clone();
            if let Err(e) = probe_boot(&dir) {
                return Some((format!("C16|start-up-fails|{}", if *st == Step::RestartClean { "clean" } else { "kill" }), e));
            }
            let node = Node::boot_single(&dir);
            w.restarts += 1;
            let before: BTreeSet<usize> = w.dbs.clone();
            for i in before.iter() {
                if !node.dbs.has_db(&dbn(*i)) {
                    w.lost.insert(format!("{}#{}", dbn(*i), w.inc[*i]));
                }
            }
            let lost = w.lost.clone();
            let inc = w.inc;
            let verdict = judge_boot(ctx, &mut w.known_hits, &lost, &inc, &node, &dir, &w.expected, if *st == Step::RestartClean { "clean-restart" } else { "kill-restart" });
            if node.oplog_discarded_at_boot {
                w.discarded_logs += 1;
                w.expected.clear();
                w.seen.clear();
            } else {
                w.kept_logs += 1;
            }
            w.dbs = (0..4).filter(|i| node.dbs.has_db(&dbn(*i))).collect();
            w.admin = connect_admin(&node);
            w.node = Some(node);
            verdict
        }
    }
}

pub fn run_case(ctx: &Ctx, case: &Case) -> Outcome {
    let dir = ctx.fresh_dir();
    let root = format!("{}-images", dir);
    let node = Node::boot_single(&dir);
    let admin = connect_admin(&node);
    let mut w = World { node: Some(node), dir: dir.clone(), admin, expected: BTreeMap::new(), seen: BTreeSet::new(), dbs: BTreeSet::new(), created_total: 0, partial_load_then_create: false, restarts: 0, kept_logs: 0, discarded_logs: 0, known_hits: BTreeMap::new(), lost: BTreeSet::new(), inc: [0; 4] };
    let mut fail: Option<(String, String)> = None;
    let mut images_checked = 0u64;
    let mut image_between = false;
    let mut known_hits: BTreeMap<String, u64> = BTreeMap::new();
    for (i, st) in case.steps.iter().enumerate() {
        // (a restart step is recorded as well: the start-up that discards an invalid log removes several files)
        if case.crash_at == Some(i) {
            let (r, images) = crash::record(&dir, &root, 400, || exec(ctx, &mut w, st));
            if let Some((sig, d)) = r {
                fail = Some((sig, format!("step {} {:?}: {}", i, st, d)));
                break;
            }
            if std::env::var("NV_C16_DEBUG").is_ok() {
                eprintln!("step {} {:?}: {} crash images: {:?}", i, st, images.len(), images.iter().map(|im| im.label.clone()).collect::<Vec<_>>());
            }
            // `expected` now also covers what this step wrote: judge every crash image of the step
            for img in images.iter() {
                let cls = crash::label_class(&img.label);
                let verdict = match probe_boot(&img.dir) {
                    Err(e) => Some((format!("C16|start-up-fails|crash-before-{}", cls), format!("crash image before `{}` of step {} {:?}: {}", img.label, i, st, e))),
                    Ok(()) => {
                        if std::env::var("NV_C16_DEBUG").is_ok() {
                            let mut names: Vec<String> = std::fs::read_dir(&img.dir).map(|rd| rd.filter_map(|e| e.ok()).map(|e| format!("{}:{}", e.file_name().to_string_lossy(), e.metadata().map(|m| m.len()).unwrap_or(0))).collect()).unwrap_or_default();
                            names.sort();
                            eprintln!("    image dir of `{}` before boot: {:?}", img.label, names);
                        }
                        let n = Node::boot_single(&img.dir);
                        images_checked += 1;
                        if cls.contains("oplog-valid-flag") || cls.contains("key-map") {
                            image_between = true;
                        }
                        // databases that this image does not bring back are lost in it
                        let mut lost_here = w.lost.clone();
                        for di in 0..4 {
                            if w.inc[di] > 0 && !n.dbs.has_db(&dbn(di)) {
                                lost_here.insert(format!("{}#{}", dbn(di), w.inc[di]));
                            }
                        }
                        judge_boot(ctx, &mut known_hits, &lost_here, &w.inc, &n, &img.dir, &w.expected, "crash-image").map(|(s, d)| (format!("{}|crash-before-{}", s, cls), format!("crash image before `{}` of step {} {:?}: {}", img.label, i, st, d)))
                    }
                };
                if std::env::var("NV_C16_DEBUG").is_ok() {
                    eprintln!("  image before `{}`: {:?}", img.label, verdict.as_ref().map(|v| v.0.clone()));
                }
                if let Some((sig, d)) = verdict {
                    if ctx.is_known(&sig) {
                        *known_hits.entry(sig).or_insert(0) += 1;
                    } else {
                        fail = Some((sig, d));
                        break;
                    }
                }
            }
            let _ = std::fs::remove_dir_all(&root);
            if fail.is_some() {
                break;
            }
        } else if let Some((sig, d)) = exec(ctx, &mut w, st) {
            fail = Some((sig, format!("step {} {:?}: {}", i, st, d)));
            break;
        }
    }
    if fail.is_none() {
        // every history ends with both kinds of restart being judged
        if let Some((sig, d)) = exec(ctx, &mut w, &Step::RestartKill) {
            fail = Some((sig, format!("final kill restart: {}", d)));
        }
    }
    let nontrivial = w.partial_load_then_create || image_between;
    let (kept, disc, plc) = (w.kept_logs, w.discarded_logs, w.partial_load_then_create);
    for (k, v) in w.known_hits.iter() {
        *known_hits.entry(k.clone()).or_insert(0) += v;
    }
    drop(w);
    ctx.drop_dir(&dir);
    let mut out = Outcome::ok(nontrivial);
    if plc {
        out.classes.push("create-db-after-restart-that-loaded-a-subset");
    }
    if image_between {
        out.classes.push("crash-image-at-flag-or-key-map-write");
    }
    out.counters.push(("crash_images_booted", images_checked));
    out.counters.push(("restarts_log_kept", kept as u64));
    out.counters.push(("restarts_log_discarded", disc as u64));
    out.known_image_hits = known_hits;
    out.fail = fail;
    out
}

// ------------------------------------------------------------------ key registration races with the key-map snapshot
// The replication thread registers the id of a new key (keys map + op-log-valid flag) while the declutter thread writes
// the keys map to disk and marks the log valid. Both run as tasks of the baton scheduler; the yield points are hook
// H12 (before every step of snapshot_keys, before the two lock acquisitions of generate_key_id).

#[derive(Clone, Debug, Serialize, Deserialize)]
pub struct RaceCase {
    /// history before the race (the same steps as the sequential engine)
    pub prefix: Vec<Step>,
    pub db: usize,
    /// keys whose `set` is queued for the replication thread when the race starts (a key never written before gets its
    /// id during the race)
    pub keys: Vec<usize>,
    /// the `snapshot` command is queued before (true) or after the writes
    pub snapshot_first: bool,
    pub schedule: Vec<u16>,
    /// history after the race; every case ends with a kill restart that is judged
    pub then: Vec<Step>,
}

fn race_sites(site: &str) -> bool {
    site.starts_with("snapshot_keys.") || site.starts_with("generate_key_id.")
}

pub fn race_strategy() -> impl Strategy<Value = RaceCase> {
    let pre = prop_oneof![
        4 => (0..5usize).prop_map(|key| Step::Write { db: 0, key }),
        2 => Just(Step::Snapshot { mask: 1 }),
        1 => Just(Step::RestartClean),
        1 => Just(Step::RestartKill),
        1 => Just(Step::CreateDb { db: 1 }),
        1 => (0..5usize).prop_map(|key| Step::Write { db: 1, key }),
    ];
    let post = prop_oneof![
        3 => (0..5usize).prop_map(|key| Step::Write { db: 0, key }),
        2 => Just(Step::Snapshot { mask: 1 }),
        2 => Just(Step::RestartClean),
        1 => Just(Step::RestartKill),
    ];
    (prop::collection::vec(pre, 0..5), prop::collection::vec(0..5usize, 1..4), any::<bool>(), prop::collection::vec(prop_oneof![2 => Just(0u16), 3 => any::<u16>()], 0..14), prop::collection::vec(post, 0..3))
        .prop_map(|(prefix, keys, snapshot_first, schedule, then)| RaceCase { prefix, db: 0, keys, snapshot_first, schedule, then })
}

fn exec_race(w: &mut World, c: &RaceCase, switches: &mut u64, yields: &mut u64, new_key_in_race: &mut bool) -> Option<(String, String)> {
    let db = c.db;
    let mut node = w.node.take().unwrap();
    let mut s = Session::new();
    s.send(&node, &format!("use-db {} t{}", dbn(db), db));
    node.pump();
    {
        let km = node.dbs.keys_map.read().unwrap();
        *new_key_in_race = c.keys.iter().any(|k| !km.contains_key(&format!("{}_k{}", dbn(db), k)) && !km.contains_key(&format!("k{}", k)));
    }
    if c.snapshot_first {
        w.admin.send(&node, &format!("snapshot false {}", dbn(db)));
    }
    for k in c.keys.iter() {
        s.send(&node, &format!("set k{} w", k));
    }
    if !c.snapshot_first {
        w.admin.send(&node, &format!("snapshot false {}", dbn(db)));
    }
    let dbs = node.dbs.clone();
    let dir = w.dir.clone();
    let nm = std::sync::Arc::new(std::sync::Mutex::new(node));
    let nm2 = nm.clone();
    let tasks: Vec<Box<dyn FnOnce(&crate::sched::TaskCtx) -> () + Send>> = vec![
        Box::new(move |_t| {
            // the replication thread: one poll works the queue off
            let mut n = nm2.lock().unwrap();
            n.pump_rep();
        }),
        Box::new(move |_t| {
            // the declutter thread's step
            crate::node::use_dir(&dir);
            nundb::disk_ops::snapshot_all_pendding_dbs(&dbs);
        }),
    ];
    let res = crate::sched::run(tasks, &c.schedule, race_sites);
    let (results, info) = match res {
        Ok(x) => x,
        Err(e) => {
            eprintln!("C16: scheduler watchdog: {}", e);
            std::process::exit(2);
        }
    };
    *switches += info.switches;
    *yields += info.yields;
    let mut node = match std::sync::Arc::try_unwrap(nm) {
        Ok(m) => m.into_inner().unwrap_or_else(|e| e.into_inner()),
        Err(_) => {
            eprintln!("C16: a race task kept the node");
            std::process::exit(2);
        }
    };
    for (i, r) in results.iter().enumerate() {
        if let Err(e) = r {
            w.node = Some(node);
            return Some((format!("C16|race-task-panicked|{}", if i == 0 { "replication-thread" } else { "declutter-step" }), e.clone()));
        }
    }
    node.pump();
    let _ = s.disconnect(&node);
    node.pump();
    let q = format!("{}#{}", dbn(db), w.inc[db]);
    let mut cands: Vec<(String, String, u8)> = c.keys.iter().map(|k| (q.clone(), format!("k{}", k), 0u8)).collect();
    cands.push((q.clone(), "$connections".to_string(), 0));
    cands.push((q, String::new(), 3));
    w.node = Some(node);
    absorb(w, &cands, false);
    ids_unique(w.node.as_ref().unwrap())
}

pub fn run_race(ctx: &Ctx, c: &RaceCase) -> Outcome {
    let dir = ctx.fresh_dir();
    let node = Node::boot_single(&dir);
    let admin = connect_admin(&node);
    let mut w = World { node: Some(node), dir: dir.clone(), admin, expected: BTreeMap::new(), seen: BTreeSet::new(), dbs: BTreeSet::new(), created_total: 0, partial_load_then_create: false, restarts: 0, kept_logs: 0, discarded_logs: 0, known_hits: BTreeMap::new(), lost: BTreeSet::new(), inc: [0; 4] };
    let mut fail: Option<(String, String)> = None;
    let (mut switches, mut yields, mut new_key) = (0u64, 0u64, false);
    let mut steps: Vec<Step> = vec![Step::CreateDb { db: 0 }, Step::Write { db: 0, key: 0 }, Step::Snapshot { mask: 1 }];
    steps.extend(c.prefix.iter().cloned());
    for (i, st) in steps.iter().enumerate() {
        if let Some((sig, d)) = exec(ctx, &mut w, st) {
            fail = Some((sig, format!("prefix step {} {:?}: {}", i, st, d)));
            break;
        }
    }
    if fail.is_none() && !w.dbs.contains(&c.db) {
        // (the database was not snapshotted before a restart of the prefix: it is gone, make it again)
        if let Some((sig, d)) = exec(ctx, &mut w, &Step::CreateDb { db: c.db }) {
            fail = Some((sig, d));
        }
    }
    if fail.is_none() {
        if let Some((sig, d)) = exec_race(&mut w, c, &mut switches, &mut yields, &mut new_key) {
            fail = Some((format!("{}|after-a-race-of-key-registration-and-key-map-snapshot", sig), format!("race: {}", d)));
        }
    }
    if fail.is_none() {
        for (i, st) in c.then.iter().chain(std::iter::once(&Step::RestartKill)).enumerate() {
            if let Some((sig, d)) = exec(ctx, &mut w, st) {
                fail = Some((format!("{}|after-a-race-of-key-registration-and-key-map-snapshot", sig), format!("step {} {:?} after the race: {}", i, st, d)));
                break;
            }
        }
    }
    let (kept, disc) = (w.kept_logs, w.discarded_logs);
    let known_hits = w.known_hits.clone();
    drop(w);
    ctx.drop_dir(&dir);
    let nontrivial = new_key && switches > 0;
    let mut out = Outcome::ok(nontrivial);
    if new_key {
        out.classes.push("race-registers-a-new-key");
    }
    if nontrivial {
        out.classes.push("race-registers-a-new-key-with-a-context-switch");
    }
    out.counters.push(("race_context_switches", switches));
    out.counters.push(("race_yield_points", yields));
    out.counters.push(("restarts_log_kept", kept as u64));
    out.counters.push(("restarts_log_discarded", disc as u64));
    out.known_image_hits = known_hits;
    out.fail = fail;
    out
}

fn race_small() -> Vec<RaceCase> {
    // every schedule with at most two pre-emptions of the smallest races: one or two new keys, snapshot queued first/last,
    // with and without an invalid flag before the race (a key registered since the last key-map snapshot)
    let scheds = crate::sched::bounded_schedules(10, 2);
    let mut out = vec![];
    for prefix in [vec![], vec![Step::Write { db: 0, key: 1 }]] {
        for keys in [vec![2usize], vec![2, 3], vec![0, 2]] {
            for snapshot_first in [true, false] {
                for then in [vec![], vec![Step::RestartClean], vec![Step::Write { db: 0, key: 4 }, Step::Snapshot { mask: 1 }]] {
                    for s in scheds.iter() {
                        out.push(RaceCase { prefix: prefix.clone(), db: 0, keys: keys.clone(), snapshot_first, schedule: s.clone(), then: then.clone() });
                    }
                }
            }
        }
    }
    out
}

fn fixed() -> Vec<Case> {
    use Step::*;
    let mut out = vec![];
    // create two, snapshot only the second, restart, create a third (id reuse?)
    for restart in [RestartClean, RestartKill] {
        out.push(Case { steps: vec![CreateDb { db: 0 }, CreateDb { db: 1 }, Write { db: 1, key: 0 }, Snapshot { mask: 2 }, restart.clone(), CreateDb { db: 2 }, Write { db: 2, key: 1 }, Write { db: 1, key: 0 }, restart.clone()], crash_at: None });
        out.push(Case { steps: vec![CreateDb { db: 0 }, Write { db: 0, key: 0 }, Snapshot { mask: 1 }, Write { db: 0, key: 1 }, restart.clone(), Write { db: 0, key: 2 }, Snapshot { mask: 1 }, restart.clone()], crash_at: None });
    }
    // crash points in every kind of step
    let base = vec![CreateDb { db: 0 }, Write { db: 0, key: 0 }, Snapshot { mask: 1 }, Write { db: 0, key: 1 }, Snapshot { mask: 1 }, CreateDb { db: 1 }, Write { db: 1, key: 2 }, Snapshot { mask: 3 }];
    for i in 0..base.len() {
        out.push(Case { steps: base.clone(), crash_at: Some(i) });
    }
    out
}

// ------------------------------------------------------------------ cross-check with the real binary
// The start-up decision lives in src/bin/main.rs, which the harness restates (node.rs). Here the REAL binary is
// started on a copy of a data directory and what it leaves behind is compared with what the restatement leaves
// behind on another copy: a change to main.rs that the restatement does not follow shows up as a difference.

fn file_state(dir: &str) -> BTreeMap<String, (u64, u64)> {
    use std::hash::{Hash, Hasher};
    let mut out = BTreeMap::new();
    let mut names = vec!["keys-nun.keys".to_string(), "is-oplog.valid".to_string(), "oplog-nun.op".to_string()];
    if let Ok(rd) = std::fs::read_dir(format!("{}/oplog", dir)) {
        for e in rd.flatten() {
            names.push(format!("oplog/{}", e.file_name().to_string_lossy()));
        }
    }
    for n in names {
        if let Ok(bytes) = std::fs::read(format!("{}/{}", dir, n)) {
            let mut h = std::collections::hash_map::DefaultHasher::new();
            bytes.hash(&mut h);
            // rotated file names carry a wall-clock id: compare them by content only
            let key = if n.starts_with("oplog/") { format!("oplog/<rotated:{}B>", bytes.len()) } else { n };
            out.insert(key, (bytes.len() as u64, h.finish()));
        }
    }
    out
}

pub fn binary_path() -> String {
    std::env::var("NV_NUNDB_BIN").unwrap_or_else(|_| "/repo/target/debug/nun-db".to_string())
}

/// starts the real binary on `dir`, waits until its TCP port answers (the start-up block is then over) or it exits, kills it
const POST_START_SCRIPT: &str = "auth admin-user admin-pwd\ncreate-db xcheck xtoken\nuse-db xcheck xtoken\nset xk v\n";

fn run_real_binary(dir: &str, mut after_start: Option<&mut BTreeMap<String, (u64, u64)>>, expected_after_start: &BTreeMap<String, (u64, u64)>, expected_after_script: &BTreeMap<String, (u64, u64)>) -> Result<(), String> {
    let (tcp, http, ws) = (crate::transport::free_port(), crate::transport::free_port(), crate::transport::free_port());
    let mut child = std::process::Command::new(binary_path())
        .args(["-u", crate::node::USER, "-p", crate::node::PWD, "start", "--tcp-address", &format!("127.0.0.1:{}", tcp), "--http-address", &format!("127.0.0.1:{}", http), "--ws-address", &format!("127.0.0.1:{}", ws)])
        .env("NUN_DBS_DIR", dir)
        .env("NUN_LOG_LEVEL", "Off")
        .env_remove("NUN_STORAGE_STRATEGY")
        .stdout(std::process::Stdio::null())
        .stderr(std::process::Stdio::null())
        .spawn()
        .map_err(|e| format!("cannot start {}: {}", binary_path(), e))?;
    let t0 = std::time::Instant::now();
    let mut result = Err("the binary neither listened nor exited within 20 s".to_string());
    while t0.elapsed() < std::time::Duration::from_secs(20) {
        if let Ok(Some(st)) = child.try_wait() {
            result = Err(format!("the real binary exited during start-up: {}", st));
            break;
        }
        if std::net::TcpStream::connect(("127.0.0.1", tcp)).is_ok() {
            // give the replication loop the time it needs to open its files: until the directory looks like the one the
            // restatement left (a state that stays different for 6 s is the finding, slowness is not)
            let t1 = std::time::Instant::now();
            while t1.elapsed() < std::time::Duration::from_secs(6) && file_state(dir) != *expected_after_start {
                crate::transport::real_sleep(std::time::Duration::from_millis(20));
            }
            if let Some(state_after_start) = after_start.as_mut() {
                **state_after_start = file_state(dir);
                // what the node believes about its op-log shows only in what the next new key does to the files
                // (a lone node makes itself primary one second after start-up; until then create-db is refused)
                let mut answer = String::new();
                let t1 = std::time::Instant::now();
                while t1.elapsed() < std::time::Duration::from_secs(8) {
                    answer = crate::transport::tcp_exchange(tcp, POST_START_SCRIPT.as_bytes(), 300, 3000).unwrap_or_default();
                    if answer.contains("create-db success") {
                        break;
                    }
                    crate::transport::real_sleep(std::time::Duration::from_millis(150));
                }
                if !answer.contains("create-db success") {
                    result = Err(format!("the real binary did not run the post-start script: {:?}", answer));
                    break;
                }
                let t2 = std::time::Instant::now();
                while t2.elapsed() < std::time::Duration::from_secs(6) && by_len(file_state(dir)) != *expected_after_script {
                    crate::transport::real_sleep(std::time::Duration::from_millis(40));
                }
            }
            result = Ok(());
            break;
        }
        crate::transport::real_sleep(std::time::Duration::from_millis(10));
    }
    let _ = child.kill();
    let _ = child.wait();
    result
}

/// after the script the op-log holds records with wall-clock times: compared by length only
fn by_len(m: BTreeMap<String, (u64, u64)>) -> BTreeMap<String, (u64, u64)> {
    m.into_iter().map(|(k, (l, h))| if k.starts_with("oplog") { (k, (l, 0)) } else { (k, (l, h)) }).collect()
}

pub fn cross_check_dir(src: &str, scratch: &str) -> Option<(String, String)> {
    let (a, b) = (format!("{}/real", scratch), format!("{}/restated", scratch));
    let _ = std::fs::remove_dir_all(scratch);
    crash::copy_dir(std::path::Path::new(src), std::path::Path::new(&a));
    crash::copy_dir(std::path::Path::new(src), std::path::Path::new(&b));
    let before = file_state(src);
    let mut restated_after_start = BTreeMap::new();
    let restated = probe_boot(&b).and_then(|_| {
        let mut n = Node::boot(&b, "127.0.0.1:3017", 1);
        n.pump();
        restated_after_start = file_state(&b);
        // the lone node elects itself (one second after start-up in the real binary)
        nundb::election_ops::start_election(&n.dbs);
        n.pump();
        let mut s = Session::new();
        for line in POST_START_SCRIPT.lines() {
            s.send(&n, line);
            n.pump();
        }
        drop(n);
        Ok(())
    });
    // the real binary writes its op-log on another thread: it is given up to 6 s to reach the state the restatement
    // reached (a state that stays different is the finding, slowness is not)
    let expected_after_script = by_len(file_state(&b));
    let mut real_after_start = BTreeMap::new();
    let real = run_real_binary(&a, Some(&mut real_after_start), &restated_after_start, &expected_after_script);
    let out = match (&real, &restated) {
        (Err(e), Ok(())) if e.contains("exited during start-up") => Some(("C16|real-binary-start-up-fails-where-the-restatement-succeeds".to_string(), format!("{} (directory state before: {:?})", e, before))),
        (Ok(()), Err(e)) => Some(("C16|restatement-fails-where-the-real-binary-starts".to_string(), e.clone())),
        (Err(e), _) => {
            if !e.contains("exited during start-up") {
                eprintln!("C16 cross-check inconclusive: {}", e);
            }
            None
        }
        (Ok(()), Ok(())) => {
            // after the script the op-log holds records with wall-clock times: compared by length only
            let (fa, fb) = (by_len(file_state(&a)), by_len(file_state(&b)));
            if std::env::var("NV_C16_DEBUG").is_ok() {
                eprintln!("cross-check: before {:?}\n  after start: real {:?} restated {:?}\n  after script: real {:?} restated {:?}", before, real_after_start, restated_after_start, fa, fb);
            }
            if real_after_start != restated_after_start {
                Some(("C16|real-binary-and-restatement-leave-different-op-log-state".to_string(), format!("before: {:?}\n real binary: {:?}\n restatement: {:?}", before, real_after_start, restated_after_start)))
            } else if fa != fb {
                Some(("C16|real-binary-and-restatement-differ-after-the-first-new-key".to_string(), format!("after start-up both directories held {:?}; after `create-db xcheck; set xk v` the real binary left {:?}, the restatement {:?} (flag file / op-log length differ: the two disagree on whether the op-log was valid)", real_after_start, fa, fb)))
            } else {
                None
            }
        }
    };
    let _ = std::fs::remove_dir_all(scratch);
    out
}

/// a history is run (without its restarts being judged again) and the directory it leaves is cross-checked
pub fn run_cross_case(ctx: &Ctx, case: &Case) -> Outcome {
    let dir = ctx.fresh_dir();
    let node = Node::boot_single(&dir);
    let admin = connect_admin(&node);
    let mut w = World { node: Some(node), dir: dir.clone(), admin, expected: BTreeMap::new(), seen: BTreeSet::new(), dbs: BTreeSet::new(), created_total: 0, partial_load_then_create: false, restarts: 0, kept_logs: 0, discarded_logs: 0, known_hits: BTreeMap::new(), lost: BTreeSet::new(), inc: [0; 4] };
    let root = format!("{}-images", dir);
    let mut fail = None;
    let mut checked = 0u64;
    for (i, st) in case.steps.iter().enumerate() {
        if case.crash_at == Some(i) && !matches!(st, Step::RestartClean | Step::RestartKill) {
            let (_r, images) = crash::record(&dir, &root, 60, || exec(ctx, &mut w, st));
            // one crash image in the middle of the step, plus the last one
            // (the images taken around the writes of the keys map and of the valid flag are where start-up has a decision
            // to make: up to four of them, spread evenly)
            let mut picks: Vec<usize> = if images.is_empty() { vec![] } else { vec![images.len() / 2, images.len() - 1] };
            let decisive: Vec<usize> = (0..images.len()).filter(|i| images[*i].label.contains("keys-nun.keys") || images[*i].label.contains("is-oplog.valid")).collect();
            for j in 0..decisive.len().min(4) {
                picks.push(decisive[j * decisive.len() / decisive.len().min(4)]);
            }
            picks.sort();
            picks.dedup();
            for pi in picks {
                checked += 1;
                if let Some((sig, d)) = cross_check_dir(&images[pi].dir, &format!("{}-x", dir)) {
                    fail = Some((sig, format!("crash image before `{}` of step {} {:?}: {}", images[pi].label, i, st, d)));
                    break;
                }
            }
            let _ = std::fs::remove_dir_all(&root);
        } else {
            let _ = exec(ctx, &mut w, st);
        }
        if fail.is_some() {
            break;
        }
    }
    if fail.is_none() {
        // the directory as a kill leaves it now
        w.node = None;
        checked += 1;
        fail = cross_check_dir(&dir, &format!("{}-x", dir));
    }
    drop(w);
    ctx.drop_dir(&dir);
    let mut out = Outcome::ok(true);
    out.classes.push("cross-checked-with-the-real-binary");
    out.counters.push(("directories_started_with_the_real_binary", checked));
    out.fail = fail;
    out
}

pub fn run(ctx: &Ctx, rep: &mut Report) {
    crate::interpose::virtual_clock(true);
    enumerate(ctx, rep, "fixed-scenarios", fixed().into_iter(), |c| run_case(ctx, c));
    if rep.failures.is_empty() {
        let n = ctx.amount(3000, 60_000);
        explore_with(ctx, rep, "histories", n, 600, case_strategy(), |c| run_case(ctx, c));
    }
    if rep.failures.is_empty() {
        enumerate(ctx, rep, "key-registration-races-with-the-key-map-snapshot-at-most-2-preemptions", race_small().into_iter(), |c| run_race(ctx, c));
    }
    if rep.failures.is_empty() {
        let n = ctx.amount(3000, 80_000);
        explore_with(ctx, rep, "key-registration-races-with-the-key-map-snapshot", n, 400, race_strategy(), |c| run_race(ctx, c));
    }
    if rep.failures.is_empty() {
        if std::path::Path::new(&binary_path()).exists() {
            enumerate(ctx, rep, "real-binary-cross-check-fixed", fixed().into_iter().filter(|c| c.crash_at.is_some()), |c| run_cross_case(ctx, c));
            if rep.failures.is_empty() {
                let n = ctx.amount(48, 1600);
                explore_with(ctx, rep, "real-binary-cross-check", n, 12, case_strategy(), |c| run_cross_case(ctx, c));
            }
        } else {
            rep.inconclusive.push(format!("real binary {} not found: cross-check skipped", binary_path()));
        }
    }
}

pub fn replay(ctx: &Ctx, engine: &str, case: &J) -> Result<Option<(String, String)>, String> {
    crate::interpose::virtual_clock(true);
    if engine.starts_with("real-binary-cross-check") {
        return replay_guarded::<Case>(ctx, case, |c| run_cross_case(ctx, c));
    }
    if engine.starts_with("key-registration-races") {
        return replay_guarded::<RaceCase>(ctx, case, |c| run_race(ctx, c));
    }
    replay_guarded::<Case>(ctx, case, |c| run_case(ctx, c))
}
