//! C15 — pending-operation accounting is exact, acknowledgements idempotent.
use crate::node::{Node, Session};
use crate::report::{enumerate, explore, replay_guarded, Ctx, Outcome, Report};
use proptest::prelude::*;
use serde::{Deserialize, Serialize};
use serde_json::Value as J;
use std::collections::{BTreeMap, BTreeSet};

const OPS: [u64; 4] = [101, 102, 103, 999]; // 999 is never registered
const NODES: [&str; 4] = ["n1:3017", "n2:3017", "n3:3017", "nx:3017"]; // nx is never a target

#[derive(Clone, Debug, Serialize, Deserialize, PartialEq)]
pub enum Ev {
    Register { op: usize, node: usize },
    Ack { op: usize, node: usize, wire: bool },
}

#[derive(Clone, Debug, Serialize, Deserialize)]
pub struct Case {
    pub evs: Vec<Ev>,
}

fn ev_strategy() -> impl Strategy<Value = Ev> {
    prop_oneof![
        2 => (0..3usize, 0..3usize).prop_map(|(op, node)| Ev::Register { op, node }),
        3 => (0..4usize, 0..4usize, any::<bool>()).prop_map(|(op, node, wire)| Ev::Ack { op, node, wire }),
    ]
}

fn pending_count(node: &Node) -> Option<usize> {
    let s = node.dbs.get_oplog_state();
    s.split(',').next()?.trim().strip_prefix("pending_ops: ")?.parse().ok()
}

pub fn run_case(ctx: &Ctx, case: &Case) -> Outcome {
    let dir = ctx.fresh_dir();
    let node = Node::boot(&dir, "127.0.0.1:3017", 1);
    let mut link = Session::link("127.0.0.1:3017");
    let mut targets: BTreeMap<usize, BTreeSet<usize>> = BTreeMap::new();
    let mut acked: BTreeMap<usize, BTreeSet<usize>> = BTreeMap::new();
    let mut nontrivial = false;
    let mut skipped = 0u64;
    let mut fail: Option<(String, String)> = None;
    for (i, ev) in case.evs.iter().enumerate() {
        let pending_before = targets.iter().filter(|(op, t)| !t.is_subset(acked.get(*op).unwrap_or(&BTreeSet::new()))).count();
        match ev {
            Ev::Register { op, node: n } => {
                // precondition of the real caller: each (operation, node) is registered once
                if targets.get(op).map(|t| t.contains(n)).unwrap_or(false) {
                    skipped += 1;
                    continue;
                }
                targets.entry(*op).or_default().insert(*n);
                let msg = node.dbs.register_pending_opp(OPS[*op], format!("replicate d k{} -1 v", op), &NODES[*n].to_string());
                let want = format!("rp {} replicate d k{} -1 v", OPS[*op], op);
                if msg != want {
                    fail = Some(("C15|register|wrong-message".into(), format!("step {}: {:?} returned {:?}, expected {:?}", i, ev, msg, want)));
                    break;
                }
            }
            Ev::Ack { op, node: n, wire } => {
                let is_target = targets.get(op).map(|t| t.contains(n)).unwrap_or(false);
                let already = acked.get(op).map(|t| t.contains(n)).unwrap_or(false);
                let effective = is_target && !already;
                if !effective && pending_before > 0 {
                    nontrivial = true;
                }
                if effective {
                    acked.entry(*op).or_default().insert(*n);
                }
                if *wire {
                    let (r, _) = link.send(&node, &format!("ack {} {}", OPS[*op], NODES[*n]));
                    if crate::node::is_refusal(&r) {
                        fail = Some(("C15|ack|wire-refused".into(), format!("step {}: {:?} -> {}", i, ev, crate::node::resp_text(&r))));
                        break;
                    }
                } else {
                    let got = node.dbs.acknowledge_pending_opp(OPS[*op], &NODES[*n].to_string());
                    if got != effective {
                        let kind = if !is_target { "non-target" } else if already { "duplicate" } else { "first" };
                        fail = Some((format!("C15|ack|return-value|{}", kind), format!("step {}: {:?} returned {}, model says effective={}", i, ev, got, effective)));
                        break;
                    }
                }
            }
        }
        let want = targets.iter().filter(|(op, t)| !t.is_subset(acked.get(*op).unwrap_or(&BTreeSet::new()))).count();
        match pending_count(&node) {
            Some(got) if got == want => {}
            got => {
                let kind = match ev {
                    Ev::Register { .. } => "after-register",
                    Ev::Ack { op, node: n, .. } => {
                        let is_target = targets.get(op).map(|t| t.contains(n)).unwrap_or(false);
                        if !is_target { "after-non-target-ack" } else { "after-target-ack" }
                    }
                };
                fail = Some((format!("C15|pending-count|{}", kind), format!("step {}: {:?}: pending_ops={:?}, model={}", i, ev, got, want)));
                break;
            }
        }
        // what the primary shows for a pending operation (`debug pending-ops`): exactly the nodes it was sent to, each
        // with whether it has acknowledged; a foreign acknowledgement adds nothing to it
        for (op, t) in targets.iter() {
            if let Some(m) = node.dbs.get_pending_opp_copy(OPS[*op]) {
                let got: BTreeMap<String, bool> = m.replications.lock().unwrap().iter().map(|(k, v)| (k.clone(), *v)).collect();
                let a = acked.get(op).cloned().unwrap_or_default();
                let want: BTreeMap<String, bool> = t.iter().map(|n| (NODES[*n].to_string(), a.contains(n))).collect();
                // (an operation that was complete is dropped and starts again with the next node it is sent to: nodes that
                // acknowledged before that need not be listed any more)
                let foreign = got.keys().any(|k| !want.contains_key(k));
                let flags_ok = got.iter().all(|(k, v)| want.get(k) == Some(v)) && want.iter().filter(|(_, v)| !**v).all(|(k, _)| got.contains_key(k));
                if foreign || !flags_ok {
                    fail = Some((format!("C15|per-node-map|{}", if foreign { "a-node-never-targeted-is-listed" } else { "flags-differ" }), format!("step {}: {:?}: op {} lists {:?}, model {:?}", i, ev, OPS[*op], got, want)));
                    break;
                }
            }
        }
        if fail.is_some() {
            break;
        }
        // counts never cross
        for (op, _) in targets.iter() {
            if let Some(m) = node.dbs.get_pending_opp_copy(OPS[*op]) {
                if m.count_acknowledged() > m.count_replication() {
                    fail = Some(("C15|ack-count-exceeds-replications".into(), format!("step {}: op {} acked {} > replicated {}", i, OPS[*op], m.count_acknowledged(), m.count_replication())));
                }
            }
        }
        if fail.is_some() {
            break;
        }
    }
    drop(node);
    ctx.drop_dir(&dir);
    let mut out = Outcome::ok(nontrivial);
    out.counters.push(("events_skipped_by_precondition", skipped));
    if nontrivial {
        out.classes.push("dup-early-or-foreign-ack-while-pending");
    }
    out.fail = fail;
    out
}

fn all_events() -> Vec<Ev> {
    // reduced: 2 ops (+foreign), 2 nodes (+foreign), direct acks and one wire ack kind
    let mut v = vec![];
    for op in 0..2 {
        for node in 0..2 {
            v.push(Ev::Register { op, node });
        }
    }
    for op in [0usize, 1, 3] {
        for node in [0usize, 1, 3] {
            v.push(Ev::Ack { op, node, wire: false });
        }
    }
    v.push(Ev::Ack { op: 0, node: 0, wire: true });
    v
}

fn sequences(alpha: &[Ev], len: usize) -> impl Iterator<Item = Case> + '_ {
    let n = alpha.len();
    let total = n.pow(len as u32);
    (0..total).map(move |mut i| {
        let mut evs = Vec::with_capacity(len);
        for _ in 0..len {
            evs.push(alpha[i % n].clone());
            i /= n;
        }
        Case { evs }
    })
}

/// the same accounting end to end: cluster histories (C04's generator) that contain a forced election while operations
/// are in flight; when everything is quiet no node may report a pending operation (membership never changes)
pub fn run_e2e(ctx: &Ctx, case: &crate::props::c04::Case) -> Outcome {
    let mut out = crate::props::c04::run_case(ctx, case);
    out.fail = match out.fail.take() {
        Some((sig, d)) if sig == "C04|pending-operations-left" => Some(("C15|end-to-end|pending-operations-left-at-quiescence".to_string(), d)),
        // whatever else such a history shows belongs to other properties
        _ => None,
    };
    out.known_image_hits.clear();
    out.classes = vec!["end-to-end-with-a-forced-election"];
    out
}

fn e2e_strategy() -> impl Strategy<Value = crate::props::c04::Case> {
    (crate::props::c04::case_strategy(), 0..3usize, 0..8usize).prop_map(|(mut c, at, pos)| {
        let pos = pos.min(c.steps.len());
        c.steps.insert(pos, crate::props::c04::Step { at, cmd: crate::props::c04::Cmd::ForceElection, settle: false, crlf: false });
        c
    })
}

/// The acknowledgement of the first target and the registration of the next target of the same operation on two REAL
/// threads (in the server: a connection thread and the replication thread), started together, `rounds` times. Whatever
/// the order, afterwards the operation is pending (the second target has not acknowledged) and the second target's
/// acknowledgement releases it. No schedule is owned here: a round can only fail if the implementation has a window,
/// so there are no false alarms; a miss is possible.
#[derive(Clone, Debug, Serialize, Deserialize)]
pub struct RaceCase {
    pub rounds: u32,
    /// the second thread starts this many spins late (moves the point where the two calls meet)
    pub skew: u32,
}

pub fn run_race(ctx: &Ctx, case: &RaceCase) -> Outcome {
    let dir = ctx.fresh_dir();
    let node = Node::boot(&dir, "127.0.0.1:3017", 1);
    let dbs = node.dbs.clone();
    let mut fail = None;
    let (n1, n2) = (NODES[0].to_string(), NODES[1].to_string());
    for r in 0..case.rounds {
        let op = 1_000_000 + r as u64;
        dbs.register_pending_opp(op, "replicate d k -1 v".to_string(), &n1);
        let barrier = std::sync::Arc::new(std::sync::Barrier::new(2));
        let (d1, b1, a1) = (dbs.clone(), barrier.clone(), n1.clone());
        let t1 = std::thread::spawn(move || {
            b1.wait();
            d1.acknowledge_pending_opp(op, &a1)
        });
        let (d2, b2, a2, skew) = (dbs.clone(), barrier.clone(), n2.clone(), case.skew);
        let t2 = std::thread::spawn(move || {
            b2.wait();
            for _ in 0..skew {
                std::hint::spin_loop();
            }
            d2.register_pending_opp(op, "replicate d k -1 v".to_string(), &a2);
        });
        let first = t1.join().unwrap_or(false);
        let _ = t2.join();
        let pending = dbs.get_pending_opp_copy(op).is_some();
        if !first || !pending {
            fail = Some(("C15|threads|operation-released-before-its-last-target-acknowledged".to_string(), format!("round {}: ack of the first target (returned {}) met the registration of the second: the operation is {} although {} has not acknowledged", r, first, if pending { "pending" } else { "NOT pending" }, n2)));
            break;
        }
        let second = dbs.acknowledge_pending_opp(op, &n2);
        if !second || dbs.get_pending_opp_copy(op).is_some() || pending_count(&node) != Some(0) {
            fail = Some(("C15|threads|operation-not-released-by-its-last-acknowledgement".to_string(), format!("round {}: after the second target's acknowledgement (returned {}) pending_ops = {:?}", r, second, pending_count(&node))));
            break;
        }
    }
    drop(node);
    ctx.drop_dir(&dir);
    let mut out = Outcome::ok(true);
    out.classes.push("ack-meets-registration-on-real-threads");
    out.counters.push(("thread_rounds", case.rounds as u64));
    out.fail = fail;
    out
}

pub fn run(ctx: &Ctx, rep: &mut Report) {
    crate::interpose::virtual_clock(true);
    {
        let rounds = ctx.amount(400, 4000);
        let cases = (0..8u32).map(move |i| RaceCase { rounds, skew: i * 40 });
        enumerate(ctx, rep, "ack-meets-registration-on-real-threads", cases, |c| run_race(ctx, c));
        if !rep.failures.is_empty() {
            return;
        }
    }
    let ne = ctx.amount(1200, 30_000);
    crate::report::explore_with(ctx, rep, "end-to-end-with-elections", ne, 100, e2e_strategy(), |c| run_e2e(ctx, c));
    if !rep.failures.is_empty() {
        return;
    }
    crate::interpose::virtual_clock(true);
    let n = ctx.amount(60_000, 2_000_000);
    explore(ctx, rep, "events", n, prop::collection::vec(ev_strategy(), 1..30).prop_map(|evs| Case { evs }), |c| run_case(ctx, c));
    let alpha = all_events();
    let max_len = ctx.amount(4, 5) as usize;
    for len in 1..=max_len {
        if !rep.failures.is_empty() {
            break;
        }
        enumerate(ctx, rep, &format!("exhaustive-len{}", len), sequences(&alpha, len), |c| run_case(ctx, c));
    }
}

pub fn replay(ctx: &Ctx, _engine: &str, case: &J) -> Result<Option<(String, String)>, String> {
    if _engine == "ack-meets-registration-on-real-threads" {
        return replay_guarded::<RaceCase>(ctx, case, |c| run_race(ctx, c));
    }
    if _engine == "end-to-end-with-elections" {
        return replay_guarded::<crate::props::c04::Case>(ctx, case, |c| run_e2e(ctx, c));
    }
    crate::interpose::virtual_clock(true);
    replay_guarded::<Case>(ctx, case, |c| run_case(ctx, c))
}
