//! C09 — every command acts only with the credential it requires (credential x command x permission matrix).
use std::collections::BTreeMap;
use crate::model::pattern_matches;
use crate::node::{is_refusal, resp_text, Node, Session};
use crate::report::{enumerate, explore, replay_guarded, Ctx, Outcome, Report};
use nundb::bo::Response;
use proptest::prelude::*;
use proptest::sample::select;
use serde::{Deserialize, Serialize};
use serde_json::Value as J;

pub const KEYS: &[&str] = &["a", "as", "bs", "c", "abc", "$$secret"];
// ("r" and "rwix|w bs": entries that name kinds of access but no pattern grant nothing: there is no pattern a key could match)
pub const PERMS: &[&str] = &["", "r *", "w *", "rw a*", "i *s|x c", "rwix *", "r a*,*s|w bs", "x *", "i *", "rwi c", "r", "rwix|w bs"];

#[derive(Clone, Debug, Serialize, Deserialize, PartialEq)]
pub enum Kind {
    Anon,
    DbToken,
    UserBob,
    UserAll,
    Admin,
}

#[derive(Clone, Debug, Serialize, Deserialize, PartialEq)]
pub enum Cmd {
    AuthOk,
    AuthWrong,
    /// credentials that are wrong but close to the right ones (a prefix, the right one with something appended,
    /// missing words, another case, user and password swapped): the session must stay what it was
    AuthNearMiss { v: u8 },
    /// the session kind's own credential form with a token that is a prefix of / an extension of / nothing of the right one
    UseDbNearMiss { db: String, v: u8 },
    /// right = the session kind's own credential for that database
    UseDb { db: String, right: bool },
    /// a use-db in the other credential form (a user session using the two-argument database-token form, any other
    /// session using the three-argument user form) with a WRONG credential: it must fail and leave the selection,
    /// including the user the session is bound to, untouched
    UseDbOtherFormWrong { db: String },
    Data { word: String, key: String },
    /// `use-db <db> <the database's token>` whatever form the session used before (a user session that knows the
    /// database token becomes a token session)
    UseDbTokenForm { db: String },
    Keys { pattern: String },
    UnwatchAll,
    Arbiter,
    Resolve { key: String },
    /// administrative command lines that are safe to execute when authenticated
    Admin { line: String },
    /// cluster/admin command lines only ever sent by sessions that are not authenticated
    Cluster { line: String },
}

#[derive(Clone, Debug, Serialize, Deserialize, PartialEq)]
pub enum Step {
    Do { s: usize, cmd: Cmd },
    /// a separate administrator changes bob's permission list mid-session
    SetPerms { perms: String },
    /// the administrator snapshots database d and the snapshot is executed: keys (permission lists among them) that are
    /// removed afterwards stay in memory as tombstones instead of disappearing
    Snapshot,
    /// the administrator removes user bob (`remove $$user_bob`): none of bob's credentials, and nothing that looks like
    /// what is left of them, opens the database afterwards
    RemoveBob,
    /// the administrator writes (or, with an empty list, removes) the permission list of the name `all` in database d:
    /// it is the list sessions opened with the database token are held to; without it they have every access
    SetAllPerms { perms: String },
}

#[derive(Clone, Debug, Serialize, Deserialize)]
pub struct Case {
    pub kinds: Vec<Kind>,
    pub bob_perms: String,
    pub steps: Vec<Step>,
}

pub fn admin_lines() -> Vec<&'static str> {
    vec!["create-db f ftok", "create-user carl carltok", "set-permissions carl r *", "set-permissions bob rwix *", "snapshot false", "snapshot true d", "cluster-state", "metrics-state", "debug list-dbs", "debug pending-ops", "debug process-info", "list-commands"]
}

pub fn cluster_lines() -> Vec<&'static str> {
    vec![
        "join n9:3017",
        "leave n9:3017",
        "set-primary n9:3017",
        "set-secoundary n9:3017",
        "election win",
        "election candidate 5 n9:3017",
        "replicate d a 3 stolen",
        "replicate-remove d a",
        "replicate-increment d c 4",
        "replicate-snapshot d false",
        "replicate-since n9:3017 0",
        "replicate-join n9:3017",
        "replicate-leave n9:3017",
        "ack 7 n9:3017",
        "debug force-election",
        "rp 9 replicate d a 3 stolen",
        "rp 9 create-db g gtok",
        "rp 9 set-primary n9:3017",
    ]
}

fn cmd_strategy() -> impl Strategy<Value = Cmd> {
    let key = select(KEYS.to_vec()).prop_map(|s| s.to_string());
    prop_oneof![
        1 => Just(Cmd::AuthOk),
        1 => Just(Cmd::AuthWrong),
        2 => (0..10u8).prop_map(|v| Cmd::AuthNearMiss { v }),
        2 => (select(vec!["d", "d", "e"]), 0..5u8).prop_map(|(db, v)| Cmd::UseDbNearMiss { db: db.to_string(), v }),
        4 => (select(vec!["d", "d", "e", "nosuch"]), prop::bool::weighted(0.7)).prop_map(|(db, right)| Cmd::UseDb { db: db.to_string(), right }),
        2 => select(vec!["d", "d", "e", "nosuch"]).prop_map(|db| Cmd::UseDbOtherFormWrong { db: db.to_string() }),
        2 => select(vec!["d", "e"]).prop_map(|db| Cmd::UseDbTokenForm { db: db.to_string() }),
        10 => (select(vec!["get", "get-safe", "set", "set-safe", "remove", "increment", "watch", "unwatch"]), key.clone()).prop_map(|(w, key)| Cmd::Data { word: w.to_string(), key }),
        1 => select(vec!["*", "a*", ""]).prop_map(|p| Cmd::Keys { pattern: p.to_string() }),
        1 => Just(Cmd::UnwatchAll),
        1 => Just(Cmd::Arbiter),
        2 => key.clone().prop_map(|key| Cmd::Resolve { key }),
        2 => select(admin_lines()).prop_map(|l| Cmd::Admin { line: l.to_string() }),
        2 => select(cluster_lines()).prop_map(|l| Cmd::Cluster { line: l.to_string() }),
    ]
}

pub fn case_strategy() -> impl Strategy<Value = Case> {
    let kind = select(vec![Kind::Anon, Kind::DbToken, Kind::UserBob, Kind::UserBob, Kind::UserAll, Kind::Admin]);
    (prop::collection::vec(kind, 1..3), select(PERMS.to_vec())).prop_flat_map(|(kinds, perms)| {
        let n = kinds.len();
        let step = prop_oneof![
            12 => (0..n, cmd_strategy()).prop_map(|(s, cmd)| Step::Do { s, cmd }),
            2 => prop_oneof![3 => select(PERMS.to_vec()), 1 => Just("")].prop_map(|p| Step::SetPerms { perms: p.to_string() }),
            1 => Just(Step::Snapshot),
            1 => Just(Step::RemoveBob),
            1 => prop_oneof![2 => select(PERMS.to_vec()), 1 => Just("")].prop_map(|p| Step::SetAllPerms { perms: p.to_string() }),
        ];
        prop::collection::vec(step, 1..9).prop_map(move |steps| Case { kinds: kinds.clone(), bob_perms: perms.to_string(), steps })
    })
}

// ------------------------------------------------------------------ model

#[derive(Clone, Debug, Default)]
struct MSession {
    auth: bool,
    sel: Option<(String, Option<String>)>,
}

fn grants(perms: &str, kind: char, key: &str) -> bool {
    if perms.is_empty() {
        return false;
    }
    perms.split('|').any(|entry| {
        let mut it = entry.splitn(2, ' ');
        let kinds = it.next().unwrap_or("");
        let pats = it.next().unwrap_or("");
        kinds.contains(kind) && pats.split(',').filter(|p| !p.is_empty()).any(|p| pattern_matches(key, p))
    })
}

#[derive(PartialEq, Debug, Clone, Copy)]
enum Expect {
    Refuse,
    Accept,
    Either,
}

struct World {
    node: Node,
    admin: Session,
    sessions: Vec<Session>,
    msessions: Vec<MSession>,
    bob_perms: String,
    bob_removed: bool,
    all_perms: String,
}

fn token_for(kind: &Kind, db: &str, right: bool) -> String {
    let dbtok = if db == "d" { "dtok" } else if db == "e" { "etok" } else { "xtok" };
    match (kind, right) {
        (Kind::UserBob, true) => "bob bobtok".to_string(),
        (Kind::UserBob, false) => "bob wrongtok".to_string(),
        (Kind::UserAll, true) => "all alltok".to_string(),
        (Kind::UserAll, false) => "all nope".to_string(),
        (Kind::Anon, _) => "guess".to_string(),
        (_, true) => dbtok.to_string(),
        (_, false) => "wrongtok".to_string(),
    }
}

fn render(kind: &Kind, cmd: &Cmd) -> String {
    match cmd {
        Cmd::AuthOk => format!("auth {} {}", crate::node::USER, crate::node::PWD),
        Cmd::AuthWrong => format!("auth {} nope", crate::node::USER),
        Cmd::AuthNearMiss { v } => {
            let (u, p) = (crate::node::USER, crate::node::PWD);
            match v % 10 {
                0 => format!("auth {} {}", u, &p[..p.len() - 1]),
                1 => format!("auth {} {}x", u, p),
                2 => format!("auth {}", u),
                3 => "auth".to_string(),
                4 => format!("auth {} {}", &u[..u.len() - 1], p),
                5 => format!("auth {}x {}", u, p),
                6 => format!("auth {} {}", p, u),
                7 => format!("auth {} {}", u, p.to_uppercase()),
                8 => format!("auth {} {}", u, &p[..1]),
                _ => format!("auth {} {}", &u[..1], &p[..1]),
            }
        }
        Cmd::UseDbNearMiss { db, v } => {
            let right = token_for(kind, db, true);
            let right = if let Kind::Anon = kind { (if db == "d" { "dtok" } else { "etok" }).to_string() } else { right };
            match v % 5 {
                // the text a removed key holds in memory
                4 => format!("use-db {} {}", db, if right.contains(' ') { "bob <Empty>" } else { "<Empty>" }),
                0 => format!("use-db {} {}", db, &right[..right.len() - 1]),
                1 => format!("use-db {} {}x", db, right),
                2 => format!("use-db {}", db),
                _ => format!("use-db {} {}", db, &right[..right.len() - 3]),
            }
        }
        Cmd::UseDb { db, right } => format!("use-db {} {}", db, token_for(kind, db, *right)),
        Cmd::UseDbTokenForm { db } => format!("use-db {} {}", db, if db == "d" { "dtok" } else { "etok" }),
        Cmd::UseDbOtherFormWrong { db } => match kind {
            Kind::UserBob | Kind::UserAll => format!("use-db {} not-the-token", db),
            _ => format!("use-db {} bob not-bobs-token", db),
        },
        Cmd::Data { word, key } => match word.as_str() {
            "set" => format!("set {} v-{}", key, word),
            "set-safe" => format!("set-safe {} 50 v-{}", key, word),
            "increment" => format!("increment {} 2", key),
            w => format!("{} {}", w, key),
        },
        Cmd::Keys { pattern } => format!("keys {}", pattern),
        Cmd::UnwatchAll => "unwatch-all".to_string(),
        Cmd::Arbiter => "arbiter".to_string(),
        Cmd::Resolve { key } => format!("resolve 77 d {} 0 v-resolve", key),
        Cmd::Admin { line } | Cmd::Cluster { line } => line.clone(),
    }
}

/// (cluster members, role, snapshot queue, pending ops) — the non-data state a refused command must not touch
fn side_state(node: &Node) -> (usize, String, usize, usize) {
    (node.dbs.count_cluster_members(), node.role().to_string(), node.dbs.to_snapshot.read().unwrap().len(), node.pending_ops())
}

const ALLOWED_REFUSAL_LINES: &[&str] = &["error no-db-selected\n", "permission denied\n", "invalid auth\n"];

fn allowed_line(m: &str) -> bool {
    // fixed refusal texts, and the protocol acknowledgement every `rp` envelope gets
    ALLOWED_REFUSAL_LINES.contains(&m) || m.starts_with("ack ")
}

fn new_world(dir: &str, case: &Case) -> World {
    let mut node = Node::boot_single(dir);
    let mut admin = Session::new();
    admin.auth(&node);
    for (db, tok) in [("d", "dtok"), ("e", "etok")] {
        admin.send(&node, &format!("create-db {} {}", db, tok));
        admin.send(&node, &format!("use-db {} {}", db, tok));
        for (k, v) in [("a", "1"), ("as", "2"), ("bs", "3"), ("c", "4"), ("abc", "5"), ("$$secret", "s3cr3t")] {
            admin.send(&node, &format!("set {} {}", k, v));
        }
    }
    admin.send(&node, "use-db d dtok");
    admin.send(&node, "create-user bob bobtok");
    admin.send(&node, "create-user all alltok");
    if !case.bob_perms.is_empty() {
        admin.send(&node, &format!("set-permissions bob {}", case.bob_perms));
    }
    node.pump();
    admin.drain();
    let sessions = case.kinds.iter().map(|_| Session::new()).collect();
    let msessions = case.kinds.iter().map(|_| MSession::default()).collect();
    World { node, admin, sessions, msessions, bob_perms: case.bob_perms.clone(), bob_removed: false, all_perms: String::new() }
}

fn cur_value(node: &Node, db: &str, key: &str) -> String {
    node.dbs.map.read().unwrap().get(db).and_then(|d| d.get_value(key.to_string())).filter(|v| v.state != nundb::bo::ValueStatus::Deleted).map(|v| v.value).unwrap_or_else(|| "<Empty>".to_string())
}

struct Flags {
    pattern_decided: bool,
    admin_without_auth: bool,
}

fn step(w: &mut World, kinds: &[Kind], st: &Step, flags: &mut Flags) -> Option<(String, String)> {
    match st {
        Step::Snapshot => {
            let (r, _) = w.admin.send(&w.node, "snapshot false d");
            w.node.pump();
            w.node.snapshot_tick();
            w.admin.drain();
            if is_refusal(&r) {
                return Some(("C09|admin-setup-refused".into(), format!("snapshot false d -> {}", resp_text(&r))));
            }
            None
        }
        Step::RemoveBob => {
            let (r, _) = w.admin.send(&w.node, "remove $$user_bob");
            w.node.pump();
            w.admin.drain();
            if is_refusal(&r) {
                return Some(("C09|admin-setup-refused".into(), format!("remove $$user_bob -> {}", resp_text(&r))));
            }
            w.bob_removed = true;
            None
        }
        Step::SetAllPerms { perms } => {
            for sess in w.sessions.iter_mut() {
                sess.drain();
            }
            let line = if perms.is_empty() { "remove $$permission_$all".to_string() } else { format!("set-permissions all {}", perms) };
            let (r, _) = w.admin.send(&w.node, &line);
            w.node.pump();
            if is_refusal(&r) {
                return Some(("C09|admin-setup-refused".into(), format!("{} -> {}", line, resp_text(&r))));
            }
            w.all_perms = perms.clone();
            None
        }
        Step::SetPerms { perms } => {
            // (what was pushed while the old list was in force was pushed rightfully)
            for sess in w.sessions.iter_mut() {
                sess.drain();
            }
            let line = if perms.is_empty() { "remove $$permission_$bob".to_string() } else { format!("set-permissions bob {}", perms) };
            let (r, _) = w.admin.send(&w.node, &line);
            w.node.pump();
            if is_refusal(&r) {
                return Some(("C09|admin-setup-refused".into(), format!("{} -> {}", line, resp_text(&r))));
            }
            w.bob_perms = perms.clone();
            None
        }
        Step::Do { s, cmd } => {
            let kind = &kinds[*s];
            // sound generator: credentials a session kind does not own are never sent by it
            match (kind, cmd) {
                (k, Cmd::AuthOk) if *k != Kind::Admin => return None,
                (Kind::Admin, Cmd::Cluster { .. }) => return None,
                (Kind::Anon, Cmd::UseDb { right: true, .. }) => return None,
                _ => {}
            }
            let ms = w.msessions[*s].clone();
            if ms.auth && matches!(cmd, Cmd::Cluster { .. }) {
                return None;
            }
            let before = w.node.dump();
            let mut line = render(kind, cmd);
            if let Cmd::Data { word, key } = cmd {
                if word == "set-safe" {
                    // a version that is not stale for the key as it is now
                    let cur = ms.sel.as_ref().and_then(|(db, _)| before.get(db)).and_then(|m| m.get(key)).map(|v| v.1).unwrap_or(0);
                    line = format!("set-safe {} {} v-set-safe", key, cur.max(0) + 1);
                }
            }
            let side_before = side_state(&w.node);
            // ---- expectation from the credential rules
            let sel_db = ms.sel.as_ref().map(|s| s.0.clone());
            let sel_user = ms.sel.as_ref().and_then(|s| s.1.clone());
            let user_perms = match sel_user.as_deref() {
                Some("bob") => Some(w.bob_perms.clone()),
                Some("all") if sel_db.as_deref() == Some("d") => Some(w.all_perms.clone()),
                Some(_) => Some(String::new()),
                // a session opened with the database token is held to the list of the name `all`, if there is one
                // (an administrator who selected the database with its token is such a session, too)
                None if sel_db.as_deref() == Some("d") && !w.all_perms.is_empty() => Some(w.all_perms.clone()),
                None => None,
            };
            let mut access_kind: Option<char> = None;
            let mut key_of: Option<String> = None;
            let expect = match cmd {
                Cmd::AuthOk | Cmd::AuthWrong => Expect::Accept,
                Cmd::AuthNearMiss { .. } => Expect::Either,
                Cmd::UseDbOtherFormWrong { .. } | Cmd::UseDbNearMiss { .. } => Expect::Refuse,
                Cmd::UseDbTokenForm { .. } => Expect::Accept,
                Cmd::UseDb { db, right } => {
                    let exists = db == "d" || db == "e";
                    let user_exists_there = match kind {
                        Kind::UserBob => db == "d" && !w.bob_removed,
                        Kind::UserAll => db == "d",
                        _ => true,
                    };
                    if exists && *right && user_exists_there { Expect::Accept } else { Expect::Refuse }
                }
                Cmd::Admin { .. } | Cmd::Cluster { .. } => {
                    if !ms.auth {
                        flags.admin_without_auth = true;
                        Expect::Refuse
                    } else {
                        Expect::Either
                    }
                }
                Cmd::Data { word, key } => {
                    key_of = Some(key.clone());
                    let k = match word.as_str() {
                        "get" | "get-safe" | "watch" => Some('r'),
                        "set" | "set-safe" => Some('w'),
                        "increment" => Some('i'),
                        "remove" => Some('x'),
                        _ => None, // unwatch
                    };
                    access_kind = k;
                    if sel_db.is_none() {
                        Expect::Refuse
                    } else if k.is_none() {
                        Expect::Either // unwatch neither reads nor writes
                    } else if key.starts_with("$$") && !ms.auth {
                        Expect::Refuse
                    } else if k == Some('i') && before.get(sel_db.as_ref().unwrap()).and_then(|m| m.get(key)).filter(|v| !v.2).map(|v| v.0.parse::<i32>().is_err()).unwrap_or(false) {
                        Expect::Refuse // not an integer: refused whoever asks
                    } else if ms.auth && sel_user.is_none() {
                        // (an administrator is held to the list of the name `all` like every session without a user name:
                        // the property does not say either way, a refusal there is accepted)
                        match &user_perms {
                            Some(p) if !grants(p, k.unwrap(), key) => Expect::Either,
                            _ => Expect::Accept,
                        }
                    } else {
                        match &user_perms {
                            None => Expect::Accept, // database-token session
                            Some(p) => {
                                flags.pattern_decided = true;
                                if grants(p, k.unwrap(), key) { Expect::Accept } else { Expect::Refuse }
                            }
                        }
                    }
                }
                Cmd::Resolve { key } => {
                    key_of = Some(key.clone());
                    access_kind = Some('w');
                    if ms.auth {
                        Expect::Either
                    } else if sel_db.is_none() {
                        Expect::Refuse
                    } else if key.starts_with("$$") {
                        Expect::Refuse
                    } else if sel_db.as_deref() != Some("d") {
                        // the command names database d: a session that selected another one has no credential for it
                        Expect::Refuse
                    } else {
                        // (the property says when a resolve must NOT act; a permitted one may still be refused: since the
                        // resolve repair of round 9 it is, on every database that has no arbiter strategy)
                        match &user_perms {
                            None => Expect::Either,
                            Some(p) => {
                                flags.pattern_decided = true;
                                if grants(p, 'w', key) { Expect::Either } else { Expect::Refuse }
                            }
                        }
                    }
                }
                Cmd::Keys { .. } | Cmd::UnwatchAll => {
                    if sel_db.is_none() { Expect::Refuse } else { Expect::Accept }
                }
                Cmd::Arbiter => {
                    if sel_db.is_none() {
                        Expect::Refuse
                    } else {
                        match &user_perms {
                            // conflict notices carry values: a user without any read grant must not get them
                            Some(p) if !p.split('|').any(|e| e.split(' ').next().unwrap_or("").contains('r')) => Expect::Refuse,
                            Some(_) => Expect::Either,
                            None => Expect::Accept,
                        }
                    }
                }
            };
            // ---- execute
            // what other sessions' accepted writes pushed to this session since its last command (watch
            // notifications it was entitled to) must not be attributed to the command sent now
            let pushed = w.sessions[*s].drain();
            if let (false, Some("bob")) = (ms.auth, sel_user.as_deref()) {
                // ... but a value pushed for a key the list in force does not let this user read is a read without a grant
                for m in pushed.iter().filter(|m| m.starts_with("changed ")) {
                    let k = m.split(' ').nth(1).unwrap_or("");
                    if !grants(&w.bob_perms, 'r', k) {
                        return Some(("C09|watch|user-with-list|value-pushed-after-the-read-grant-was-revoked".to_string(), format!("{:?} watched {:?} while its list granted the read; the list is now {:?} and the session was still pushed {:?}", kind, k, w.bob_perms, m)));
                    }
                }
            }
            let (r, msgs) = w.sessions[*s].send(&w.node, &line);
            w.node.pump();
            let refused = is_refusal(&r);
            let after = w.node.dump();
            let who = match (kind, &sel_user) {
                (Kind::Admin, _) if ms.auth => "admin".to_string(),
                (_, Some(u)) => format!("user-{}", if u == "bob" { "with-list" } else { "all-without-list" }),
                (_, None) if sel_db.is_some() => "db-token".to_string(),
                _ => "no-selection".to_string(),
            };
            let who = if !ms.auth && sel_user.as_deref() == Some("bob") && w.bob_perms.is_empty() { "user-without-list".to_string() } else { who };
            match expect {
                Expect::Refuse => {
                    if !refused {
                        // accepted although the credential is missing: did it do or reveal something?
                        let changed = after != before;
                        let data = matches!(r, Response::Value { .. }) || msgs.iter().any(|m| !allowed_line(m));
                        let what = if changed { "state-changed" } else if data { "data-returned" } else { "accepted" };
                        // use-db with a wrong token that is "accepted" is always a failure; ElectionActive-like no-ops are not
                        if let Cmd::Arbiter = cmd {
                            return Some(("C09|arbiter|user-without-read-grant|accepted".to_string(), format!("{:?} (perms {:?}) sends \"arbiter\" and is registered for conflict notices although it has no read grant at all: {} {:?}", kind, w.bob_perms, resp_text(&r), msgs)));
                        }
                        if changed || data || matches!(cmd, Cmd::UseDb { .. } | Cmd::UseDbOtherFormWrong { .. } | Cmd::UseDbNearMiss { .. } | Cmd::Data { .. } | Cmd::Resolve { .. }) {
                            return Some((format!("C09|{}|{}|{}", word_of(&line), who, what), format!("{:?} sends {:?}: must be refused, got {} {:?}{}", kind, line, resp_text(&r), msgs, if changed { " and the state changed" } else { "" })));
                        }
                    } else {
                        if after != before {
                            return Some((format!("C09|{}|{}|refused-but-state-changed", word_of(&line), who), format!("{:?} sends {:?}: refused ({}) but the databases changed", kind, line, resp_text(&r))));
                        }
                        if side_state(&w.node) != side_before {
                            return Some((format!("C09|{}|{}|refused-but-node-state-changed", word_of(&line), who), format!("{:?} sends {:?}: refused but cluster/snapshot/pending state changed {:?} -> {:?}", kind, line, side_before, side_state(&w.node))));
                        }
                        if let Some(m) = msgs.iter().find(|m| !allowed_line(m)) {
                            return Some((format!("C09|{}|{}|refused-but-data-line", word_of(&line), who), format!("{:?} sends {:?}: refused but pushed {:?}", kind, line, m)));
                        }
                    }
                    // failed use-db leaves the previous selection in force
                    if let Cmd::UseDb { .. } | Cmd::UseDbOtherFormWrong { .. } | Cmd::UseDbNearMiss { .. } = cmd {
                        let now_user = w.sessions[*s].client.selected_db_user_name();
                        if now_user != sel_user {
                            return Some((format!("C09|use-db|{}|failed-use-db-changed-the-session-user", who), format!("{:?}: {:?} failed but the user the session is bound to went {:?} -> {:?}", kind, line, sel_user, now_user)));
                        }
                        let now = w.sessions[*s].client.selected_db_name();
                        if now != sel_db {
                            return Some((format!("C09|use-db|{}|failed-use-db-changed-selection", who), format!("{:?}: {:?} failed but selection went {:?} -> {:?}", kind, line, sel_db, now)));
                        }
                    }
                }
                Expect::Accept => {
                    if refused {
                        return Some((format!("C09|{}|{}|refused-although-permitted", word_of(&line), who), format!("{:?} sends {:?} (perms {:?}): must be accepted, got {}", kind, line, w.bob_perms, resp_text(&r))));
                    }
                    match cmd {
                        Cmd::AuthOk => w.msessions[*s].auth = true,
                        Cmd::UseDbTokenForm { db } => {
                            w.msessions[*s].sel = Some((db.clone(), None));
                        }
                        Cmd::UseDb { db, .. } => {
                            let user = match kind {
                                Kind::UserBob => Some("bob".to_string()),
                                Kind::UserAll => Some("all".to_string()),
                                _ => None,
                            };
                            w.msessions[*s].sel = Some((db.clone(), user));
                        }
                        Cmd::Data { word, key } => {
                            let db = sel_db.clone().unwrap();
                            match word.as_str() {
                                "get" | "get-safe" => {
                                    let want = before.get(&db).and_then(|m| m.get(key)).filter(|v| !v.2).map(|v| v.0.clone()).unwrap_or_else(|| "<Empty>".to_string());
                                    match &r {
                                        Response::Value { value, .. } if *value == want => {}
                                        _ => return Some((format!("C09|{}|{}|wrong-value", word, who), format!("{:?}: expected {:?}, got {}", line, want, resp_text(&r)))),
                                    }
                                }
                                "set" | "set-safe" => {
                                    let got = cur_value(&w.node, &db, key);
                                    if got != format!("v-{}", word) {
                                        return Some((format!("C09|{}|{}|accepted-but-not-applied", word, who), format!("{:?} accepted but the key holds {:?}", line, got)));
                                    }
                                }
                                "remove" => {
                                    let got = cur_value(&w.node, &db, key);
                                    if got != "<Empty>" {
                                        return Some((format!("C09|remove|{}|accepted-but-not-applied", who), format!("{:?} accepted but the key holds {:?}", line, got)));
                                    }
                                }
                                _ => {}
                            }
                        }
                        _ => {}
                    }
                }
                Expect::Either => {
                    if let Cmd::AuthOk = cmd {
                        w.msessions[*s].auth = true;
                    }
                }
            }
            let _ = (access_kind, key_of);
            // wrong administrator credentials, however close, leave the session what it was
            if let Cmd::AuthWrong | Cmd::AuthNearMiss { .. } = cmd {
                let is_admin_now = w.sessions[*s].client.is_admin_auth();
                if is_admin_now != ms.auth {
                    return Some((format!("C09|auth|{}|wrong-credentials-changed-the-session", who), format!("{:?} sends {:?} (not the administrator's credentials): reply {}, the session is {}an administrator afterwards, it was {}one before", kind, line, resp_text(&r), if is_admin_now { "" } else { "not " }, if ms.auth { "" } else { "not " })));
                }
                // (an already authenticated session is told "valid auth" whatever it sends: it stays what it was)
                if !ms.auth && msgs.iter().any(|m| m.contains("valid auth") && !m.contains("invalid auth")) {
                    return Some((format!("C09|auth|{}|wrong-credentials-answered-valid", who), format!("{:?} sends {:?}: pushed {:?}", kind, line, msgs)));
                }
            }
            None
        }
    }
}

fn word_of(line: &str) -> String {
    let mut it = line.split(' ');
    let w = it.next().unwrap_or("");
    if w == "rp" {
        format!("rp+{}", it.nth(1).unwrap_or(""))
    } else if w == "election" || w == "debug" {
        format!("{}-{}", w, it.next().unwrap_or(""))
    } else {
        w.to_string()
    }
}

pub fn run_case(ctx: &Ctx, case: &Case) -> Outcome {
    let dir = ctx.fresh_dir();
    let mut w = new_world(&dir, case);
    let mut flags = Flags { pattern_decided: false, admin_without_auth: false };
    let mut fail = None;
    for (i, st) in case.steps.iter().enumerate() {
        if let Some((sig, d)) = step(&mut w, &case.kinds, st, &mut flags) {
            fail = Some((sig, format!("step {}: {}", i, d)));
            break;
        }
    }
    drop(w);
    ctx.drop_dir(&dir);
    let mut out = Outcome::ok(flags.pattern_decided || flags.admin_without_auth);
    if flags.pattern_decided {
        out.classes.push("decided-by-permission-pattern");
    }
    if flags.admin_without_auth {
        out.classes.push("admin-command-without-auth");
    }
    out.fail = fail;
    out
}

/// the single-command matrix: credential state x command (x permission list for users)
fn matrix() -> Vec<Case> {
    let mut cmds: Vec<Cmd> = vec![];
    for k in KEYS {
        for wd in ["get", "get-safe", "set", "set-safe", "remove", "increment", "watch", "unwatch"] {
            cmds.push(Cmd::Data { word: wd.to_string(), key: k.to_string() });
        }
        cmds.push(Cmd::Resolve { key: k.to_string() });
    }
    cmds.push(Cmd::Keys { pattern: "*".into() });
    cmds.push(Cmd::UnwatchAll);
    cmds.push(Cmd::Arbiter);
    for l in admin_lines() {
        cmds.push(Cmd::Admin { line: l.to_string() });
    }
    for l in cluster_lines() {
        cmds.push(Cmd::Cluster { line: l.to_string() });
    }
    // credential prefixes: how the session got where it is
    let prefixes: Vec<(Kind, Vec<Cmd>)> = vec![
        (Kind::Anon, vec![]),
        (Kind::Anon, vec![Cmd::AuthWrong]),
        (Kind::Anon, vec![Cmd::UseDb { db: "d".into(), right: false }]),
        (Kind::DbToken, vec![Cmd::UseDb { db: "d".into(), right: true }]),
        (Kind::DbToken, vec![Cmd::UseDb { db: "d".into(), right: true }, Cmd::UseDb { db: "e".into(), right: false }]),
        (Kind::UserBob, vec![Cmd::UseDb { db: "d".into(), right: true }]),
        (Kind::UserBob, vec![Cmd::UseDb { db: "d".into(), right: true }, Cmd::UseDbOtherFormWrong { db: "d".into() }]),
        (Kind::UserBob, vec![Cmd::UseDb { db: "d".into(), right: true }, Cmd::UseDbOtherFormWrong { db: "e".into() }]),
        (Kind::UserBob, vec![Cmd::UseDb { db: "d".into(), right: false }]),
        (Kind::UserAll, vec![Cmd::UseDb { db: "d".into(), right: true }]),
        (Kind::Admin, vec![Cmd::AuthOk, Cmd::UseDb { db: "d".into(), right: true }]),
        (Kind::Admin, vec![Cmd::AuthOk]),
    ];
    let mut out = vec![];
    // a permission list that reached the disk and was revoked afterwards (its key is a tombstone in memory): every data
    // command of a session opened with that user's token, before and after the revocation
    for perms in ["r a*", "rwix *"] {
        for c in cmds.iter().filter(|c| matches!(c, Cmd::Data { .. } | Cmd::Keys { .. } | Cmd::Resolve { .. })) {
            for login_first in [true, false] {
                let login = Step::Do { s: 0, cmd: Cmd::UseDb { db: "d".into(), right: true } };
                let mut steps = vec![];
                if login_first {
                    steps.push(login.clone());
                }
                steps.push(Step::Snapshot);
                steps.push(Step::SetPerms { perms: String::new() });
                if !login_first {
                    steps.push(login.clone());
                }
                steps.push(Step::Do { s: 0, cmd: c.clone() });
                out.push(Case { kinds: vec![Kind::UserBob], bob_perms: perms.to_string(), steps });
            }
        }
    }
    // a watch registered while the list granted the read, the grant revoked afterwards, another session writes the key
    for new_perms in ["", "w *", "r c", "rwix bs"] {
        for word in ["set", "set-safe", "increment"] {
            for key in ["a", "abc"] {
                let steps = vec![
                    Step::Do { s: 0, cmd: Cmd::UseDb { db: "d".into(), right: true } },
                    Step::Do { s: 0, cmd: Cmd::Data { word: "watch".into(), key: key.into() } },
                    Step::Do { s: 1, cmd: Cmd::UseDb { db: "d".into(), right: true } },
                    Step::SetPerms { perms: new_perms.to_string() },
                    Step::Do { s: 1, cmd: Cmd::Data { word: word.into(), key: key.into() } },
                    Step::Do { s: 0, cmd: Cmd::Keys { pattern: "*".into() } },
                ];
                out.push(Case { kinds: vec![Kind::UserBob, Kind::DbToken], bob_perms: "r a*".into(), steps });
            }
        }
    }
    // the list is removed and written again while bob's session stays open (with and without the removed list having
    // reached the disk: its key restarts at version 0 or goes on from its tombstone): the session is held to the list
    // in force, whatever it was granted before
    for snapshot_first in [false, true] {
        for new_perms in ["r c", "w bs", "i *s", "rwix c"] {
            for word in ["get", "get-safe", "set", "set-safe", "remove", "increment", "watch"] {
                for key in ["a", "bs"] {
                    let mut steps = vec![Step::Do { s: 0, cmd: Cmd::UseDb { db: "d".into(), right: true } }, Step::Do { s: 0, cmd: Cmd::Data { word: word.into(), key: key.into() } }];
                    if snapshot_first {
                        steps.push(Step::Snapshot);
                    }
                    steps.push(Step::SetPerms { perms: String::new() });
                    steps.push(Step::Do { s: 0, cmd: Cmd::Data { word: "get".into(), key: key.into() } });
                    steps.push(Step::SetPerms { perms: new_perms.to_string() });
                    steps.push(Step::Do { s: 0, cmd: Cmd::Data { word: word.into(), key: key.into() } });
                    steps.push(Step::Do { s: 0, cmd: Cmd::Data { word: "get".into(), key: key.into() } });
                    out.push(Case { kinds: vec![Kind::UserBob], bob_perms: "rwix *".into(), steps });
                }
            }
        }
    }
    // the list of the name `all` is written, (snapshotted,) removed: sessions opened with the database token have every
    // access again, as they had before it was written
    for snapshot_first in [false, true] {
        for word in ["get", "get-safe", "set", "set-safe", "remove", "increment", "watch"] {
            let mut steps = vec![Step::Do { s: 0, cmd: Cmd::UseDb { db: "d".into(), right: true } }, Step::SetAllPerms { perms: "r c".into() }, Step::Do { s: 0, cmd: Cmd::Data { word: word.into(), key: "a".into() } }];
            if snapshot_first {
                steps.push(Step::Snapshot);
            }
            steps.push(Step::SetAllPerms { perms: String::new() });
            steps.push(Step::Do { s: 0, cmd: Cmd::Data { word: word.into(), key: "a".into() } });
            out.push(Case { kinds: vec![Kind::DbToken], bob_perms: "rwix *".into(), steps });
        }
    }
    // a removed user: none of its credentials opens the database any more, whether or not its key had reached the disk
    for snapshot_first in [true, false] {
        for kind in [Kind::UserBob, Kind::Anon, Kind::DbToken] {
            let mut tries: Vec<Cmd> = (0..5u8).map(|v| Cmd::UseDbNearMiss { db: "d".into(), v }).collect();
            tries.push(Cmd::UseDb { db: "d".into(), right: true });
            for t in tries {
                if kind != Kind::UserBob && matches!(t, Cmd::UseDb { .. }) {
                    continue;
                }
                let mut steps = vec![];
                if snapshot_first {
                    steps.push(Step::Snapshot);
                }
                steps.push(Step::RemoveBob);
                // (sessions that are not bob's try bob's credential form)
                let t = if kind != Kind::UserBob { Cmd::UseDbOtherFormWrong { db: "d".into() } } else { t };
                steps.push(Step::Do { s: 0, cmd: t });
                steps.push(Step::Do { s: 0, cmd: Cmd::Data { word: "get".into(), key: "a".into() } });
                out.push(Case { kinds: vec![kind.clone()], bob_perms: "rwix *".into(), steps });
            }
        }
    }
    for (kind, pre) in prefixes {
        let perms_list: Vec<&str> = if kind == Kind::UserBob { PERMS.to_vec() } else { vec![""] };
        for p in perms_list {
            for c in cmds.iter() {
                let mut steps: Vec<Step> = pre.iter().map(|c| Step::Do { s: 0, cmd: c.clone() }).collect();
                steps.push(Step::Do { s: 0, cmd: c.clone() });
                out.push(Case { kinds: vec![kind.clone()], bob_perms: p.to_string(), steps });
            }
        }
    }
    out
}

// ------------------------------------------------------------------ requests over HTTP
// An HTTP request is a session of its own: what a request without the administrator's credentials gets must not
// depend on the administrator requests the same server (and its four worker threads) served before. Twin servers with
// the same data; one of them serves administrator requests first; every reply and both data sets must stay equal.

#[derive(Clone, Debug, Serialize, Deserialize)]
pub struct HttpCase {
    /// "none" | "dbtoken" | "bob" | "wrongtoken"
    pub login: String,
    pub lines: Vec<String>,
}

pub struct HttpTwin {
    pub served_admins: (Node, u16),
    pub pristine: (Node, u16),
}

fn http_data_lines() -> Vec<&'static str> {
    vec!["get a", "set a by-http", "remove c", "increment n 2", "keys *", "get $$secret", "set-safe a 90 x", "watch a", "arbiter", "resolve 77 d a 0 v-resolve"]
}

pub fn http_case_strategy() -> impl Strategy<Value = HttpCase> {
    let mut pool: Vec<&'static str> = admin_lines();
    pool.extend(cluster_lines());
    pool.extend(http_data_lines());
    (select(vec!["none", "dbtoken", "bob", "wrongtoken"]), prop::collection::vec(select(pool), 1..4)).prop_map(|(l, lines)| HttpCase { login: l.to_string(), lines: lines.into_iter().map(|s| s.to_string()).collect() })
}

pub fn start_http_twin(ctx: &Ctx) -> HttpTwin {
    let mk = |name: &str| {
        let dir = ctx.scratch.join(name).to_str().unwrap().to_string();
        std::fs::create_dir_all(&dir).unwrap();
        let mut node = Node::boot_single(&dir);
        let mut admin = Session::new();
        admin.auth(&node);
        admin.send(&node, "create-db d dtok");
        admin.send(&node, "use-db d dtok");
        for (k, v) in [("a", "1"), ("c", "4"), ("n", "7"), ("$$secret", "s3cr3t")] {
            admin.send(&node, &format!("set {} {}", k, v));
        }
        admin.send(&node, "create-user bob bobtok");
        admin.send(&node, "set-permissions bob r a*");
        admin.send(&node, "unwatch-all");
        admin.client.left(&node.dbs);
        node.pump();
        crate::transport::run_services_in_background(&mut node);
        let port = crate::transport::start_http(node.dbs.clone());
        (node, port)
    };
    HttpTwin { served_admins: mk("http-admins"), pristine: mk("http-pristine") }
}

fn strip_volatile(d: BTreeMap<String, BTreeMap<String, (String, i32, bool)>>) -> BTreeMap<String, BTreeMap<String, (String, i32, bool)>> {
    d.into_iter().map(|(db, m)| (db, m.into_iter().filter(|(k, _)| k != "$connections").collect())).collect()
}

pub fn run_http_case(twin: &HttpTwin, case: &HttpCase) -> Outcome {
    let mut out = Outcome::ok(true);
    out.classes.push("over-http");
    // more administrator requests than the server has workers (read-only: the twins keep the same data)
    for _ in 0..6 {
        let body = format!("auth {} {}; use-db d dtok; get a; cluster-state", crate::node::USER, crate::node::PWD);
        if crate::transport::http_post(twin.served_admins.1, &body).is_err() {
            eprintln!("C09 http engine: administrator request failed");
            out.nontrivial = false;
            return out;
        }
    }
    let login = match case.login.as_str() {
        "dbtoken" => "use-db d dtok; ",
        "bob" => "use-db d bob bobtok; ",
        "wrongtoken" => "use-db d nope; ",
        _ => "",
    };
    let body = format!("{}{}", login, case.lines.join("; "));
    let before = strip_volatile(twin.served_admins.0.dump());
    let side_before = side_state(&twin.served_admins.0);
    let ra = crate::transport::http_post(twin.served_admins.1, &body).map(|(s, b)| format!("{} | {}", s, b)).unwrap_or_else(|e| format!("ERR {}", e.split(':').next().unwrap_or("")));
    let rb = crate::transport::http_post(twin.pristine.1, &body).map(|(s, b)| format!("{} | {}", s, b)).unwrap_or_else(|e| format!("ERR {}", e.split(':').next().unwrap_or("")));
    let word = word_of(case.lines.last().map(|s| s.as_str()).unwrap_or(""));
    // cluster-state style answers carry the node's own port: compare with the ports masked
    let mask = |s: &str, port: u16| s.replace(&port.to_string(), "<port>");
    if mask(&ra, twin.served_admins.1) != mask(&rb, twin.pristine.1) {
        out.fail = Some((format!("C09|over-http|reply-depends-on-earlier-administrator-requests|{}", word), format!("request {:?} ({}): a server that served administrator requests before answers\n  {}\nits twin that never did answers\n  {}", body, case.login, ra, rb)));
        return out;
    }
    let (da, db) = (strip_volatile(twin.served_admins.0.dump()), strip_volatile(twin.pristine.0.dump()));
    if da != db {
        out.fail = Some((format!("C09|over-http|state-depends-on-earlier-administrator-requests|{}", word), format!("request {:?} ({}): the twins' data differ afterwards; before on the first {:?}, after {:?}, twin {:?}", body, case.login, before, da, db)));
        return out;
    }
    if side_state(&twin.served_admins.0) != side_before {
        out.fail = Some((format!("C09|over-http|node-state-changed|{}", word), format!("request {:?} ({}): cluster/snapshot/pending state {:?} -> {:?}", body, case.login, side_before, side_state(&twin.served_admins.0))));
    }
    out
}


// ------------------------------------------------------------------ the same credential rules in a cluster
// What a session sends is forwarded to the primary / replicated to the secondaries over links that hold
// administrator rights: the credential rules have to hold for what arrives THERE, too. Two-node cluster (E3), two
// databases; the session owns a credential for `d` only (or none). After every command the cluster settles and on BOTH
// nodes: database `e` is what it was, a key of `d` changed only if it is the key the command names and the session's
// credential grants that kind of access to it, and a command that needs the administrator caused no traffic between
// the nodes.

pub const CKEYS: &[&str] = &["a", "as", "bs", "c", "abc", "$$secret", "a\rbs", "c\nas", "bs\r", "zz\n-as"];

#[derive(Clone, Debug, Serialize, Deserialize, PartialEq)]
pub enum CCmd {
    Data { word: String, key: String },
    Resolve { db: String, key: String, version: i32 },
    Raw { line: String },
}

#[derive(Clone, Debug, Serialize, Deserialize)]
pub struct CCase {
    /// Anon | DbToken | UserBob
    pub kind: Kind,
    pub perms: String,
    pub node: usize,
    pub cmds: Vec<CCmd>,
}

fn cluster_raw_lines() -> Vec<&'static str> {
    let mut v = cluster_lines();
    v.extend(["election active n9:3017", "election anything", "rp 9 election active n9:3017", "rp 9 resolve 5 e a -1 stolen", "create-db g gtok", "snapshot false e"]);
    v
}

pub fn ccase_strategy() -> impl Strategy<Value = CCase> {
    let key = select(CKEYS.to_vec()).prop_map(|s| s.to_string());
    let cmd = prop_oneof![
        6 => (select(vec!["set", "set-safe", "remove", "increment"]), key.clone()).prop_map(|(w, key)| CCmd::Data { word: w.to_string(), key }),
        3 => (select(vec!["d", "e", "e"]), key.clone(), select(vec![-1, 0, 1])).prop_map(|(db, key, version)| CCmd::Resolve { db: db.to_string(), key, version }),
        2 => select(cluster_raw_lines()).prop_map(|l| CCmd::Raw { line: l.to_string() }),
    ];
    (select(vec![Kind::Anon, Kind::DbToken, Kind::DbToken, Kind::UserBob, Kind::UserBob]), select(PERMS.to_vec()), 0..2usize, prop::collection::vec(cmd, 1..5)).prop_map(|(kind, perms, node, cmds)| CCase { kind, perms: perms.to_string(), node, cmds })
}

pub fn run_cluster_case(ctx: &Ctx, case: &CCase) -> Outcome {
    use crate::props::c04::{boot_cluster, cluster_dump};
    let scratch = ctx.fresh_dir();
    let mut c = match boot_cluster(&scratch, 2) {
        Ok(c) => c,
        Err(e) => {
            ctx.drop_dir(&scratch);
            return Outcome::failed("C09|set-up", e);
        }
    };
    let mut setup = vec![format!("auth {} {}", crate::node::USER, crate::node::PWD)];
    for (db, tok) in [("d", "dtok"), ("e", "etok")] {
        setup.push(format!("create-db {} {}", db, tok));
        setup.push(format!("use-db {} {}", db, tok));
        for (k, v) in [("a", "1"), ("as", "2"), ("bs", "3"), ("c", "4"), ("abc", "5"), ("$$secret", "s3cr3t")] {
            setup.push(format!("set {} {}", k, v));
        }
    }
    setup.push("use-db d dtok".into());
    setup.push("create-user bob bobtok".into());
    if !case.perms.is_empty() {
        setup.push(format!("set-permissions bob {}", case.perms));
    }
    c.client(0, setup);
    let mut out = Outcome::ok(false);
    out.classes.push("in-a-cluster");
    if !c.run(&mut |_| 0, 400_000) {
        drop(c);
        ctx.drop_dir(&scratch);
        return Outcome::failed("C09|set-up", "the cluster did not become quiet after the set-up".to_string());
    }
    let sid = c.open_session(case.node);
    match case.kind {
        Kind::DbToken => {
            c.session_send(sid, vec!["use-db d dtok".into()]);
        }
        Kind::UserBob => {
            c.session_send(sid, vec!["use-db d bob bobtok".into()]);
        }
        _ => {}
    }
    c.run(&mut |_| 0, 400_000);
    let who = match case.kind {
        Kind::DbToken => "db-token",
        Kind::UserBob => "user",
        _ => "no-credential",
    };
    let mut before = [cluster_dump(&c, 0), cluster_dump(&c, 1)];
    for (i, cmd) in case.cmds.iter().enumerate() {
        let cur = before[case.node].get("d").and_then(|m| m.get(match cmd { CCmd::Data { key, .. } | CCmd::Resolve { key, .. } => key.as_str(), _ => "" })).map(|v| v.1).unwrap_or(0);
        // (a key is what the node makes of it: line breaks are not part of a key, on any node)
        let seen = |k: &String| k.replace('\n', "").replace('\r', "");
        let (line, named, access) = match cmd {
            CCmd::Data { word, key } => match word.as_str() {
                "set" => (format!("set {} v{}", key, i), Some(seen(key)), 'w'),
                "set-safe" => (format!("set-safe {} {} v{}", key, cur.max(0) + 1, i), Some(seen(key)), 'w'),
                "increment" => (format!("increment {} 2", key), Some(seen(key)), 'i'),
                _ => (format!("remove {}", key), Some(seen(key)), 'x'),
            },
            CCmd::Resolve { db, key, version } => (format!("resolve 77 {} {} {} stolen{}", db, key, version, i), if db == "d" { Some(seen(key)) } else { None }, 'w'),
            CCmd::Raw { line } => (line.clone(), None, ' '),
        };
        let traffic_before = c.delivered.iter().filter(|m| m.kind != "client").count();
        let reply = c.session_send(sid, vec![line.clone()]);
        let settled = c.run(&mut |_| 0, 20_000);
        let traffic = c.delivered.iter().filter(|m| m.kind != "client").count() - traffic_before;
        let word = word_of(&line);
        // a changed key is within the session's credential when the credential grants this kind of access to THAT key
        // (the conflict record a granted resolve leaves behind counts as part of the resolve)
        let within = |key: &str| -> bool {
            !key.starts_with("$$")
                && match case.kind {
                    Kind::DbToken => true,
                    Kind::UserBob => grants(&case.perms, access, key),
                    _ => false,
                }
        };
        let granted = |key: &str| -> bool {
            if access == ' ' {
                return false;
            }
            if let (CCmd::Resolve { .. }, Some(n)) = (cmd, named.as_deref()) {
                if key.starts_with(&format!("$conflicts_{}_", n)) {
                    return within(n);
                }
            }
            within(key)
        };
        for node in 0..2 {
            let now = cluster_dump(&c, node);
            for (db, keys) in now.iter() {
                let was = before[node].get(db);
                for (k, v) in keys.iter() {
                    if was.and_then(|m| m.get(k)) == Some(v) {
                        continue;
                    }
                    let what = if db != "d" {
                        "a-database-it-has-no-credential-for-changed"
                    } else if granted(k) {
                        out.nontrivial = true;
                        continue;
                    } else if named.as_deref() == Some(k.as_str()) {
                        "the-key-it-named-but-is-not-granted-changed"
                    } else {
                        "a-key-it-neither-named-nor-is-granted-changed"
                    };
                    out.fail = Some((format!("C09|in-a-cluster|{}|{}|{}", word, who, what), format!("step {}: the {} session (perms {:?}) on n{} sent {:?} (reply {:?}): on n{} {}.{:?} went {:?} -> {:?}", i, who, case.perms, case.node, line, reply, node, db, k, was.and_then(|m| m.get(k)), v)));
                }
            }
            if now.len() != before[node].len() && out.fail.is_none() {
                out.fail = Some((format!("C09|in-a-cluster|{}|{}|databases-changed", word, who), format!("step {}: the {} session on n{} sent {:?}: n{} now has the databases {:?}", i, who, case.node, line, node, now.keys().collect::<Vec<_>>())));
            }
            before[node] = now;
        }
        if out.fail.is_none() && named.is_none() && traffic > 0 {
            out.nontrivial = true;
            let sample: Vec<String> = c.delivered.iter().filter(|m| m.kind != "client").rev().take(3).map(|m| format!("n{}->n{} {:?}", m.from, m.to, m.line)).collect();
            out.fail = Some((format!("C09|in-a-cluster|{}|{}|traffic-between-the-nodes", word, who), format!("step {}: the {} session on n{} sent {:?} (reply {:?}), which it has no credential for: {} lines went between the nodes afterwards{}, e.g. {:?}", i, who, case.node, line, reply, traffic, if settled { "" } else { " and the cluster did not become quiet" }, sample)));
        }
        if named.is_none() {
            out.nontrivial = true;
        }
        if out.fail.is_some() || !settled {
            // (a cluster that does not settle is another property's business: C14)
            break;
        }
    }
    drop(c);
    ctx.drop_dir(&scratch);
    out
}

fn install_link_sink() {
    // `join` from an authenticated session would open a replication link: hand it to a sink
    fn sink(_k: &'static str, _p: &str, _l: &str, _d: &std::sync::Arc<nundb::bo::Databases>, _r: futures::channel::mpsc::Receiver<String>) -> Option<futures::channel::mpsc::Receiver<String>> {
        None
    }
    nundb::verif::set_link_handler(Some(sink));
}

pub fn run(ctx: &Ctx, rep: &mut Report) {
    crate::interpose::virtual_clock(true);
    install_link_sink();
    let n = ctx.amount(20_000, 400_000);
    explore(ctx, rep, "sequences", n, case_strategy(), |c| run_case(ctx, c));
    if rep.failures.is_empty() {
        enumerate(ctx, rep, "single-command-matrix", matrix().into_iter(), |c| run_case(ctx, c));
    }
    if rep.failures.is_empty() {
        let twin = start_http_twin(ctx);
        let n = ctx.amount(1200, 40_000);
        explore(ctx, rep, "requests-over-http", n, http_case_strategy(), |c| run_http_case(&twin, c));
    }
    if rep.failures.is_empty() {
        let n = ctx.amount(600, 20_000);
        crate::report::explore_with(ctx, rep, "in-a-cluster", n, 100, ccase_strategy(), |c| run_cluster_case(ctx, c));
        install_link_sink();
    }
}

pub fn replay(ctx: &Ctx, engine: &str, case: &J) -> Result<Option<(String, String)>, String> {
    crate::interpose::virtual_clock(true);
    install_link_sink();
    if engine == "requests-over-http" {
        let twin = start_http_twin(ctx);
        return replay_guarded::<HttpCase>(ctx, case, |c| run_http_case(&twin, c));
    }
    if engine == "in-a-cluster" {
        return replay_guarded::<CCase>(ctx, case, |c| run_cluster_case(ctx, c));
    }
    replay_guarded::<Case>(ctx, case, |c| run_case(ctx, c))
}
