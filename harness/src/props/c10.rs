//! C10 — no client input can crash a handler or wedge the node (in-process part: grammar + random lines).
use crate::node::{is_refusal, last_panic_loc, resp_text, Node, Session};
use crate::report::{enumerate, explore, replay_guarded, Ctx, Outcome, Report};
use nundb::bo::Response;
use proptest::prelude::*;
use proptest::sample::select;
use serde::{Deserialize, Serialize};
use serde_json::Value as J;

pub fn words() -> Vec<String> {
    let mut w = nundb::bo::Request::command_list();
    w.sort();
    w.push("unknown-word".to_string());
    w.push("".to_string());
    w.push("SET".to_string());
    w
}

pub fn tokens() -> Vec<String> {
    vec![
        "".into(), " ".into(), "x".into(), "probe".into(), "ptok".into(), "k".into(), "k_x".into(), "{PENDING}".into(), "-1".into(), "0".into(), "1".into(), "-2".into(),
        "2147483647".into(), "2147483648".into(), "-2147483648".into(), "-2147483649".into(), "4294967296".into(),
        "18446744073709551615".into(), "18446744073709551616".into(),
        "340282366920938463463374607431768211455".into(), "340282366920938463463374607431768211456".into(),
        "$$k".into(), "$$token".into(), "a;b".into(), "a\nb".into(), "ké✓".into(), "\0".into(), "true".into(), "false".into(),
        "candidate".into(), "win".into(), "force-election".into(), "pending-ops".into(), "arbiter".into(), "newer".into(), "none".into(),
        "n9:3017".into(), "127.0.0.1:3017".into(), "rwix".into(), "*".into(), "|".into(), "a|b".into(), "é".repeat(3000), "y".repeat(10_000),
    ]
}

#[derive(Clone, Debug, Serialize, Deserialize, PartialEq)]
pub enum Auth {
    None,
    Admin,
    AdminDb,
    DbToken,
}

#[derive(Clone, Debug, Serialize, Deserialize)]
pub struct Case {
    pub auth: Auth,
    pub lines: Vec<String>,
    /// how many times the LAST line is sent back-to-back without the client channel being drained (pipelined lines)
    pub repeat: u32,
    /// 0 = a node with one plain database; 1 = a node in a richer state: the probe database uses the arbiter strategy, an
    /// arbiter client and a watcher are connected, keys k and k_x have been written several times, one conflict on k_x is
    /// waiting for the arbiter (commands whose handlers only do something in such a state); 2 = world 0 on a node that is
    /// not the primary and knows no primary (the first second after its start, or while an election is running): the
    /// branches that forward to the primary run with nobody to forward to
    #[serde(default)]
    pub world: u8,
}

fn line_strategy() -> impl Strategy<Value = String> {
    let grammar = (select(words()), prop::collection::vec(select(tokens()), 0..6)).prop_map(|(w, toks)| {
        let mut l = w;
        for t in toks {
            l.push(' ');
            l.push_str(&t);
        }
        l
    });
    let nested = (select(vec!["rp 5 ", "rp 18446744073709551615 ", "rp 0 rp 1 "]), grammar.clone()).prop_map(|(p, l)| format!("{}{}", p, l));
    let bytes = prop::collection::vec(any::<u8>(), 0..60).prop_map(|b| String::from_utf8_lossy(&b).to_string());
    let chars = prop::collection::vec(any::<char>(), 0..40).prop_map(|c| c.into_iter().collect::<String>());
    prop_oneof![10 => grammar, 2 => nested, 1 => bytes, 1 => chars]
}

pub fn case_strategy() -> impl Strategy<Value = Case> {
    (select(vec![Auth::None, Auth::Admin, Auth::AdminDb, Auth::DbToken]), prop::collection::vec(line_strategy(), 1..5), prop_oneof![6 => Just(1u32), 1 => Just(101u32), 1 => Just(150u32)])
        .prop_map(|(auth, lines, repeat)| Case { auth, lines, repeat, world: 0 })
        .prop_flat_map(|c| prop_oneof![3 => Just(0u8), 2 => Just(1u8), 1 => Just(2u8)].prop_map(move |w| Case { world: w, ..c.clone() }))
}

fn always_virtual(_ns: u64) -> bool {
    true
}

fn sink(_k: &'static str, _p: &str, _l: &str, _d: &std::sync::Arc<nundb::bo::Databases>, _r: futures::channel::mpsc::Receiver<String>) -> Option<futures::channel::mpsc::Receiver<String>> {
    None
}

pub fn setup_process() {
    crate::interpose::virtual_clock(true);
    crate::interpose::set_sleep_hook(Some(always_virtual));
    nundb::verif::set_link_handler(Some(sink));
}

fn word_of(line: &str) -> String {
    let mut it = line.trim_matches('\n').trim_end_matches(';').splitn(3, ' ');
    let w = it.next().unwrap_or("");
    let known = words();
    let w1 = if known.iter().any(|k| k == w) { w.to_string() } else { "<other>".to_string() };
    if w == "rp" {
        let _id = it.next();
        let inner = it.next().unwrap_or("");
        word_of(inner) // the innermost command decides
    } else if w == "election" || w == "debug" {
        let sub = it.next().unwrap_or("");
        let sub = if ["candidate", "win", "force-election", "pending-ops", "active"].contains(&sub) { sub } else { "<other>" };
        format!("{}-{}", w1, sub)
    } else {
        w1
    }
}

fn panic_sig(kind: &str, line: &str, msg: &str) -> String {
    let loc = last_panic_loc();
    let file = loc.rsplit('/').next().unwrap_or("").split(':').next().unwrap_or("").to_string();
    let short: String = msg.chars().take(60).collect();
    format!("C10|{}|{}|{}|{}", kind, word_of(line), file, short)
}

pub fn run_case(ctx: &Ctx, case: &Case) -> Outcome {
    let dir = ctx.fresh_dir();
    let mut node = Node::boot_single(&dir);
    let mut admin = Session::new();
    admin.auth(&node);
    admin.send(&node, if case.world == 1 { "create-db probe ptok arbiter" } else { "create-db probe ptok" });
    admin.send(&node, "use-db probe ptok");
    admin.send(&node, "set k 1");
    admin.send(&node, "create-db other-db otok");
    // sessions that stay connected for the whole case in the richer world
    let mut _bystanders: Vec<Session> = vec![];
    let mut _member_rx: Option<futures::channel::mpsc::Receiver<String>> = None;
    if case.world == 1 {
        for i in 0..8 {
            admin.send(&node, &format!("set k v{}", i));
            admin.send(&node, &format!("set k_x w{}", i));
        }
        let mut arb = Session::new();
        arb.auth(&node);
        arb.send(&node, "use-db probe ptok");
        arb.send(&node, "arbiter");
        let mut watcher = Session::new();
        watcher.send(&node, "use-db probe ptok");
        watcher.send(&node, "watch k");
        watcher.send(&node, "watch k_x");
        let mut writer = Session::new();
        writer.send(&node, "use-db probe ptok");
        writer.send(&node, "set-safe k_x 0 first-conflict");
        _bystanders = vec![arb, watcher, writer];
        // a secondary that is connected and never acknowledges: the writes above stay pending, their ids are what the
        // token {PENDING} in a line stands for
        let (tx, rx) = futures::channel::mpsc::channel::<String>(1000);
        _member_rx = Some(rx);
        node.dbs.add_cluster_member(nundb::bo::ClusterMember { name: "127.0.0.1:3999".to_string(), role: nundb::bo::ClusterRole::Secoundary, sender: Some(tx) });
        admin.send(&node, "set k pending-write");
    }
    node.pump();
    if case.world == 2 {
        let role = if case.lines.len() % 2 == 0 { nundb::bo::ClusterRole::Secoundary } else { nundb::bo::ClusterRole::StartingUp };
        node.dbs.node_state.swap(role as usize, std::sync::atomic::Ordering::SeqCst);
        // (nobody is known as the primary, the node itself included)
        node.dbs.cluster_state.lock().unwrap().members.lock().unwrap().clear();
    }
    let pending_id: String = node.dbs.pending_opps.read().unwrap().keys().max().map(|k| k.to_string()).unwrap_or_else(|| "7".to_string());
    let mut s = Session::new();
    match case.auth {
        Auth::None => {}
        Auth::Admin => s.auth(&node),
        Auth::AdminDb => {
            s.auth(&node);
            s.send(&node, "use-db probe ptok");
        }
        Auth::DbToken => {
            s.send(&node, "use-db probe ptok");
        }
    }
    node.pump();
    let mut fail: Option<(String, String)> = None;
    let mut nontrivial = false;
    let nasty = tokens();
    let n = case.lines.len();
    'lines: for (i, line) in case.lines.iter().enumerate() {
        let reps = if i + 1 == n { case.repeat.max(1) } else { 1 };
        if !line.is_ascii() || line.split(' ').skip(1).any(|t| nasty.iter().skip(1).any(|x| x == t) && (t.len() > 3 || t.starts_with('-') || t.contains(';') || t.contains('\n') || t == "\0")) {
            nontrivial = nontrivial || words().iter().any(|w| !w.is_empty() && line.starts_with(w.as_str()));
        }
        // {PENDING_CONFLICT}: the key under which the waiting conflict is registered; {LAST_OP}: the id the next conflict
        // record of this session will carry cannot be known, so the line names every $conflicts_ key there is
        let conflict_key = node.dump_db("probe").and_then(|m| m.keys().find(|k| k.starts_with("$conflicts_k_x")).cloned()).unwrap_or_else(|| "$conflicts_k_x_1".to_string());
        let conn_conflict = node.dump_db("probe").and_then(|m| m.keys().find(|k| k.starts_with("$conflicts_$connections")).cloned()).unwrap_or_else(|| "$conflicts_$connections_1".to_string());
        if line == "{TICK}" {
            // the snapshot thread's next run (a service thread: a panic there ends every later snapshot of the node)
            crate::node::use_dir(&node.dir);
            let r = std::panic::catch_unwind(std::panic::AssertUnwindSafe(|| node.snapshot_tick()));
            if let Err(e) = r {
                let msg = crate::node::panic_text(e);
                let prev = case.lines.iter().take(i).rev().find(|l| l.as_str() != "{TICK}").cloned().unwrap_or_default();
                fail = Some((panic_sig("snapshot-thread-panic", &prev, &msg), format!("the snapshot run after {:?} panicked at {}: {}", case.lines.iter().take(i).map(|l| short(l)).collect::<Vec<_>>(), last_panic_loc(), msg)));
                break 'lines;
            }
            if let Some(l) = node.poisoned() {
                fail = Some((format!("C10|poisoned|snapshot-run|{}", l), format!("after the snapshot run: lock {} is poisoned", l)));
                break;
            }
            continue;
        }
        let line = &line.replace("{PENDING_CONFLICT}", &conflict_key).replace("$conflicts_$connections_{LAST_OP}", &conn_conflict).replace("{PENDING}", &pending_id);
        for _ in 0..reps {
            use std::panic::{catch_unwind, AssertUnwindSafe};
            crate::node::use_dir(&node.dir);
            let dbs = node.dbs.clone();
            let client = &mut s.client;
            let r = catch_unwind(AssertUnwindSafe(|| nundb::process_request::process_request(line, &dbs, client)));
            match r {
                Err(e) => {
                    let msg = crate::node::panic_text(e);
                    fail = Some((panic_sig("handler-panic", line, &msg), format!("line {:?} (auth {:?}) panicked at {}: {}", short(line), case.auth, last_panic_loc(), msg)));
                    break 'lines;
                }
                Ok(resp) => {
                    // every command is answered with a value, ok or an error
                    match resp {
                        Response::Value { .. } | Response::Ok {} | Response::Set { .. } | Response::Error { .. } | Response::VersionError { .. } => {}
                    }
                }
            }
            if reps == 1 {
                s.drain();
            }
        }
        s.drain();
        // the two service loops are alive after processing what the command queued
        node.pump();
        if !node.rep_alive {
            fail = Some((panic_sig("replication-loop-dead", line, "replication loop ended"), format!("after {:?}: the replication loop died at {}", short(line), last_panic_loc())));
            break;
        }
        if !node.sup_alive {
            fail = Some((panic_sig("supervisor-loop-dead", line, "supervisor loop ended"), format!("after {:?}: the replication supervisor died at {}", short(line), last_panic_loc())));
            break;
        }
        if let Some(l) = node.poisoned() {
            fail = Some((format!("C10|poisoned|{}|{}", word_of(line), l), format!("after {:?}: lock {} is poisoned", short(line), l)));
            break;
        }
    }
    if fail.is_none() {
        // a second client is served
        let last = case.lines.last().cloned().unwrap_or_default();
        let mut p = Session::new();
        // (a database the generated lines cannot name: an administrator may legitimately change `probe`'s token)
        let res = p.send_caught(&node, "use-db other-db otok").and_then(|_| p.send_caught(&node, "set probe-key v1")).and_then(|(r, _)| if is_refusal(&r) { Err(format!("set refused: {}", resp_text(&r))) } else { p.send_caught(&node, "get probe-key") });
        match res {
            Ok((Response::Value { value, .. }, msgs)) if value == "v1" && msgs == vec!["value v1\n".to_string()] => {}
            Ok((r, msgs)) => fail = Some((format!("C10|second-client-not-served|{}", word_of(&last)), format!("after {:?}: probe get -> {} {:?}", case.lines.iter().map(|l| short(l)).collect::<Vec<_>>(), resp_text(&r), msgs))),
            Err(e) => fail = Some((format!("C10|second-client-not-served|{}", word_of(&last)), format!("after {:?}: probe failed: {}", case.lines.iter().map(|l| short(l)).collect::<Vec<_>>(), e))),
        }
        let _ = p.disconnect(&node);
    }
    if fail.is_none() {
        if let Err(e) = s.disconnect(&node) {
            let last = case.lines.last().cloned().unwrap_or_default();
            fail = Some((panic_sig("disconnect-panic", &last, &e), format!("disconnect after {:?} panicked: {}", short(&last), e)));
        }
    }
    drop(node);
    ctx.drop_dir(&dir);
    let mut out = Outcome::ok(nontrivial);
    if case.repeat > 1 {
        out.classes.push("pipelined-repeat-over-channel-capacity");
    }
    if nontrivial {
        out.classes.push("known-word-with-nasty-argument");
    }
    out.fail = fail;
    out
}

fn short(s: &str) -> String {
    if s.len() > 120 {
        format!("{}…({}B)", s.chars().take(80).collect::<String>(), s.len())
    } else {
        s.to_string()
    }
}

/// every word x every token at each of the first 4 argument positions (others fixed to plausible values)
fn systematic() -> Vec<Case> {
    let fill = ["probe", "5", "k", "7", "v"];
    let mut out = vec![];
    for (world, auth) in [(0u8, Auth::None), (0, Auth::Admin), (0, Auth::AdminDb), (0, Auth::DbToken), (1, Auth::AdminDb), (1, Auth::DbToken), (2, Auth::AdminDb), (2, Auth::DbToken)] {
        for w in words() {
            for pos in 0..4usize {
                for t in tokens() {
                    let mut parts: Vec<String> = vec![w.clone()];
                    for i in 0..=pos.max(2) {
                        parts.push(if i == pos { t.clone() } else { fill[i].to_string() });
                    }
                    out.push(Case { auth: auth.clone(), lines: vec![parts.join(" ")], repeat: 1, world });
                    // and with the token as the LAST argument (exact arity)
                    let mut exact: Vec<String> = vec![w.clone()];
                    for i in 0..pos {
                        exact.push(fill[i].to_string());
                    }
                    exact.push(t.clone());
                    out.push(Case { auth: auth.clone(), lines: vec![exact.join(" ")], repeat: 1, world });
                }
            }
            // and with too few arguments
            out.push(Case { auth: auth.clone(), lines: vec![w.clone()], repeat: 1, world });
            out.push(Case { auth: auth.clone(), lines: vec![format!("{} ", w)], repeat: 1, world });
            out.push(Case { auth: auth.clone(), lines: vec![format!("{} x", w)], repeat: 150, world });
            // the same wrapped as a replication envelope, pipelined beyond the capacity of the client channel
            out.push(Case { auth: auth.clone(), lines: vec![format!("rp 5 {} k", w)], repeat: 150, world });
        }
    }
    out
}

// ------------------------------------------------------------------------------------------------
// lines whose damage would take the whole process down (stack exhaustion, allocation failure): run in a child process
// ------------------------------------------------------------------------------------------------

#[derive(Clone, Debug, Serialize, Deserialize)]
pub struct ChildCase {
    /// "none" | "db" | "admin"
    pub auth: String,
    /// the line is `prefix` repeated `depth` times followed by `inner`
    pub prefix: String,
    pub depth: u32,
    pub inner: String,
}

pub fn child_main(scratch: &str, auth: &str, file: &str) -> i32 {
    setup_process();
    let line = std::fs::read_to_string(file).unwrap_or_default();
    let mut node = Node::boot_single(scratch);
    let mut admin = Session::new();
    admin.auth(&node);
    admin.send(&node, "create-db probe ptok");
    node.pump();
    let dbs = node.dbs.clone();
    let auth = auth.to_string();
    // the TCP front end runs every connection on a spawned thread (default stack size)
    let h = std::thread::spawn(move || {
        let (mut client, _rx) = nundb::bo::Client::new_empty_and_receiver();
        if auth == "admin" {
            nundb::process_request::process_request(&format!("auth {} {}", crate::node::USER, crate::node::PWD), &dbs, &mut client);
        }
        if auth != "none" {
            nundb::process_request::process_request("use-db probe ptok", &dbs, &mut client);
        }
        let _ = std::panic::catch_unwind(std::panic::AssertUnwindSafe(|| nundb::process_request::process_request(&line, &dbs, &mut client)));
    });
    let _ = h.join();
    0
}

pub fn run_child_case(ctx: &Ctx, case: &ChildCase) -> Outcome {
    use std::os::unix::process::ExitStatusExt;
    let dir = ctx.fresh_dir();
    let file = format!("{}/line.txt", dir);
    let line = format!("{}{}", case.prefix.repeat(case.depth as usize), case.inner);
    std::fs::write(&file, &line).unwrap();
    let scratch = format!("{}/node", dir);
    std::fs::create_dir_all(&scratch).unwrap();
    let mut out = Outcome::ok(case.depth >= 100);
    out.classes.push("in-a-child-process");
    let exe = std::env::current_exe().unwrap();
    let status = std::process::Command::new(exe).args(["c10-child", &scratch, &case.auth, &file]).stdout(std::process::Stdio::null()).stderr(std::process::Stdio::null()).status();
    match status {
        Ok(st) => {
            if let Some(sig) = st.signal() {
                out.fail = Some((format!("C10|process-killed|{}|signal-{}", word_of(&format!("{}{}", case.prefix, case.inner)), sig), format!("one line from a session with auth {:?} killed the whole process (signal {}): {:?} x {} + {:?} ({} bytes)", case.auth, sig, case.prefix, case.depth, case.inner, line.len())));
            }
        }
        Err(e) => eprintln!("C10 child engine: cannot start the child: {}", e),
    }
    ctx.drop_dir(&dir);
    out
}

fn child_family() -> Vec<ChildCase> {
    let mut out = vec![];
    for auth in ["none", "db", "admin"] {
        for (prefix, inner) in [("rp 1 ", "get k"), ("rp 1 ", "set k v"), ("rp 18446744073709551615 ", "unknown"), ("set k ", "v"), ("get ", "k"), ("keys ", "*"), ("; ", "get k"), ("rp 1 \n", "get k"), ("rp 1 \n\n", "set k v"), ("rp 1 \r\n", "get k"), ("rp 1  ", "get k"), ("rp 1 \t", "get k")] {
            for depth in [2u32, 60, 300, 2000, 20_000] {
                out.push(ChildCase { auth: auth.to_string(), prefix: prefix.to_string(), depth, inner: inner.to_string() });
            }
        }
    }
    out
}

/// world 1 (arbiter database, a conflict waiting): every sequence of three lines of a pool that touches the conflict
/// machinery — the record of the waiting conflict removed or overwritten, keys whose names are patterns, the
/// connection counter in conflict, arbiters coming and going
fn conflict_family() -> Vec<Case> {
    let pool = [
        "remove {PENDING_CONFLICT}",
        "set {PENDING_CONFLICT} x",
        "set-safe k_x 0 again",
        "set-safe *a* 0 v",
        "set-safe * 0 v",
        "set-safe $connections 0 v",
        "remove $conflicts_$connections_{LAST_OP}",
        "use-db probe ptok",
        "unwatch $conflicts",
        "arbiter",
        "unwatch-all",
        "keys $conflicts",
        "set k_x plain",
    ];
    let mut out = vec![];
    for a in pool.iter() {
        for b in pool.iter() {
            for c in pool.iter() {
                out.push(Case { auth: Auth::DbToken, lines: vec![a.to_string(), b.to_string(), c.to_string()], repeat: 1, world: 1 });
            }
        }
    }
    out
}


/// database names an administrator may pick: created, selected, written, snapshotted (and the snapshot executed)
fn db_name_family() -> Vec<Case> {
    let long = "n".repeat(300);
    // (names measured in characters and in bytes: 150 two-byte and 100 three-byte characters are 300 bytes, more than a
    // file name holds; 120 two-byte characters are 240 bytes: with the suffixes of the database's files still too long)
    let long2 = "é".repeat(150);
    let long3 = "✓".repeat(100);
    let long4 = "é".repeat(120);
    let ok199 = "m".repeat(199);
    let names: Vec<&str> = vec![&long2, &long3, &long4, &ok199, "plain", "app.keys", "x-nun.data", "my.db", "a/b", "no-such-dir/x", "../escaped", "a|b", "a b", "é✓", "$x", "-", ".", "..", &long, "keys-nun", "oplog-nun.op"];
    let mut out = vec![];
    for n in names {
        for reclaim in ["false", "true"] {
            out.push(Case { auth: Auth::Admin, lines: vec![format!("create-db {} ntok", n), format!("use-db {} ntok", n), "set k v".to_string(), format!("snapshot {}", reclaim), "{TICK}".to_string(), "set k w".to_string(), format!("snapshot {} {}", reclaim, n), "{TICK}".to_string(), "use-db other-db otok".to_string(), "snapshot false".to_string(), "{TICK}".to_string()], repeat: 1, world: 0 });
        }
    }
    out
}

pub fn run(ctx: &Ctx, rep: &mut Report) {
    setup_process();
    let n = ctx.amount(30_000, 1_000_000);
    explore(ctx, rep, "lines", n, case_strategy(), |c| run_case(ctx, c));
    if rep.failures.is_empty() {
        enumerate(ctx, rep, "word-x-token-x-position", systematic().into_iter(), |c| run_case(ctx, c));
    }
    if rep.failures.is_empty() {
        enumerate(ctx, rep, "database-names", db_name_family().into_iter(), |c| run_case(ctx, c));
    }
    if rep.failures.is_empty() {
        enumerate(ctx, rep, "conflict-world-triples", conflict_family().into_iter(), |c| run_case(ctx, c));
    }
    if rep.failures.is_empty() {
        enumerate(ctx, rep, "long-lines-in-a-child-process", child_family().into_iter(), |c| run_child_case(ctx, c));
    }
    if rep.failures.is_empty() {
        run_transports(ctx, rep);
    }
    if rep.failures.is_empty() {
        enumerate(ctx, rep, "client-threads-on-shared-locks", threads_family(ctx).into_iter(), |c| run_threads_case(ctx, c));
    }
}

pub fn replay(ctx: &Ctx, engine: &str, case: &J) -> Result<Option<(String, String)>, String> {
    setup_process();
    if engine == "long-lines-in-a-child-process" {
        return replay_guarded::<ChildCase>(ctx, case, |c| run_child_case(ctx, c));
    }
    if engine == "client-threads-on-shared-locks" {
        return replay_guarded::<ThreadsCase>(ctx, case, |c| run_threads_case(ctx, c));
    }
    if engine == "transports-tcp-line-that-is-no-text" {
        let srv = TServer::start(ctx);
        return replay_guarded::<NoTextCase>(ctx, case, |c| run_no_text_case(&srv, c));
    }
    if engine == "transports-tcp-pipelines-and-segments" {
        let srv = TServer::start(ctx);
        return replay_guarded::<PipeCase>(ctx, case, |c| run_pipe_case(&srv, c));
    }
    if engine.starts_with("transports") {
        let srv = TServer::start(ctx);
        return replay_guarded::<TCase>(ctx, case, |c| run_transport_case(&srv, c));
    }
    replay_guarded::<Case>(ctx, case, |c| run_case(ctx, c))
}

// ------------------------------------------------------------------------------------------------
// the same oracle over the real transports (TCP, HTTP, WebSocket servers started in process)
// ------------------------------------------------------------------------------------------------

#[derive(Clone, Debug, Serialize, Deserialize)]
pub struct TCase {
    /// "tcp" | "http" | "ws"
    pub transport: String,
    pub auth: Auth,
    pub lines: Vec<String>,
    /// ws: the last line is sent once more as a BINARY frame; tcp: the raw bytes are not valid UTF-8
    pub binary: bool,
    /// tcp/http: the last line is pipelined this many times in one write / one body
    pub repeat: u32,
}

pub struct TServer {
    pub node: Node,
    pub tcp: u16,
    pub http: u16,
    pub ws: u16,
}

impl TServer {
    pub fn start(ctx: &Ctx) -> TServer {
        setup_process();
        crate::interpose::set_sleep_hook(None); // real threads, real time here
        let dir = ctx.fresh_dir();
        let mut node = Node::boot_single(&dir);
        let mut admin = Session::new();
        admin.auth(&node);
        admin.send(&node, "create-db probe ptok");
        admin.send(&node, "create-db other-db otok");
        node.pump();
        crate::transport::run_services_in_background(&mut node);
        let dbs = node.dbs.clone();
        let (tcp, http, ws) = (crate::transport::start_tcp(dbs.clone()), crate::transport::start_http(dbs.clone()), crate::transport::start_ws(dbs));
        TServer { node, tcp, http, ws }
    }
}

fn prefix_lines(auth: &Auth) -> Vec<String> {
    match auth {
        Auth::None => vec![],
        Auth::Admin => vec![format!("auth {} {}", crate::node::USER, crate::node::PWD)],
        Auth::AdminDb => vec![format!("auth {} {}", crate::node::USER, crate::node::PWD), "use-db probe ptok".to_string()],
        Auth::DbToken => vec!["use-db probe ptok".to_string()],
    }
}

/// after the input: a new connection on each transport is served
fn probe_transports(srv: &TServer, tag: &str) -> Option<(String, String)> {
    use crate::transport::*;
    for attempt in 0..5 {
        // HTTP has 4 workers: all of them must still answer
        match http_post(srv.http, &format!("use-db other-db otok;set p h{};get p", attempt)) {
            Ok((st, body)) if st.contains("200") && body.ends_with(&format!("value h{}\n", attempt)) => {}
            other => return Some((format!("C10|transport|http-not-served|{}", tag), format!("HTTP probe {}: {:?}", attempt, other))),
        }
    }
    // (the probes wait for the expected answer, up to 30 s: slowness under load is not a finding)
    match tcp_exchange_until(srv.tcp, b"use-db other-db otok\nset p t1\nget p\n", "value t1", 30_000) {
        Ok(out) if out.contains("value t1") => {}
        other => return Some((format!("C10|transport|tcp-not-served|{}", tag), format!("TCP probe: {:?}", other))),
    }
    match ws_exchange_until(srv.ws, vec![Frame::Text("use-db other-db otok".into()), Frame::Text("set p w1".into()), Frame::Text("get p".into())], "value w1", 30_000) {
        Ok(msgs) if msgs.iter().any(|m| m.contains("value w1")) => {}
        other => return Some((format!("C10|transport|ws-not-served|{}", tag), format!("WebSocket probe: {:?}", other))),
    }
    if srv.node.dbs.replication_sender.is_closed() || srv.node.dbs.replication_supervisor_sender.is_closed() {
        // (here both service loops run on one background thread, as they do on the main thread of the real binary: a
        // panic in one ends both, and it may be noticed only by the probe of a later case)
        let (msg, loc) = (crate::node::last_panic_msg(), last_panic_loc());
        if msg.contains("Re-adding a secoundary that alrady exists") {
            // the listed re-join finding, reached over a real transport: same panic site, same signature as the in-process engine
            return Some(("C10|supervisor-loop-dead|join|replication_ops.rs|supervisor loop ended".to_string(), format!("over {}: the replication supervisor died at {} ({})", tag, loc, msg)));
        }
        return Some((format!("C10|transport|service-loops-dead|{}", tag), format!("the service loops' channels are closed; last panic: {} at {}", msg, loc)));
    }
    if let Some(l) = srv.node.poisoned() {
        return Some((format!("C10|transport|poisoned|{}", tag), format!("lock {} is poisoned", l)));
    }
    None
}

pub fn run_transport_case(srv: &TServer, case: &TCase) -> Outcome {
    use crate::transport::*;
    let mut lines = prefix_lines(&case.auth);
    lines.extend(case.lines.iter().cloned());
    let last = case.lines.last().cloned().unwrap_or_default();
    for _ in 1..case.repeat.max(1) {
        lines.push(last.clone());
    }
    let tag = format!("{}|{}{}", case.transport, word_of(&last), if case.binary { "|binary" } else { "" });
    match case.transport.as_str() {
        "http" => {
            for _ in 0..5 {
                // five times: there are four workers
                let _ = http_post(srv.http, &lines.join(";"));
            }
        }
        "tcp" => {
            let mut payload: Vec<u8> = (lines.join("\n") + "\n").into_bytes();
            if case.binary {
                payload.extend_from_slice(&[0xff, 0xfe, 0x80, b'\n', b'g', b'e', b't', b' ', 0xc3, b'\n']);
            }
            let _ = tcp_exchange(srv.tcp, &payload, 200, 5_000);
        }
        _ => {
            let mut frames: Vec<Frame> = lines.iter().map(|l| Frame::Text(l.clone())).collect();
            if case.binary {
                frames.push(Frame::Binary(last.as_bytes().to_vec()));
                frames.push(Frame::Binary(vec![0xff, 0xfe, 0x00, 0x80]));
            }
            let _ = ws_exchange(srv.ws, frames, 300);
        }
    }
    let mut out = Outcome::ok(true);
    out.classes.push(match case.transport.as_str() {
        "http" => "transport-http",
        "tcp" => "transport-tcp",
        _ => "transport-ws",
    });
    out.fail = probe_transports(srv, &tag);
    out
}

pub fn fixed_transport_cases() -> Vec<TCase> {
    let mut v = vec![];
    for t in ["tcp", "http", "ws"] {
        v.push(TCase { transport: t.into(), auth: Auth::None, lines: vec!["get k".into()], binary: false, repeat: 1 });
        v.push(TCase { transport: t.into(), auth: Auth::DbToken, lines: vec!["set k 2147483647".into(), "increment k 1".into()], binary: false, repeat: 1 });
        v.push(TCase { transport: t.into(), auth: Auth::None, lines: vec!["election candidate x".into()], binary: false, repeat: 1 });
        v.push(TCase { transport: t.into(), auth: Auth::None, lines: vec!["rp 1 get k".into()], binary: false, repeat: 150 });
        v.push(TCase { transport: t.into(), auth: Auth::DbToken, lines: vec!["get k".into()], binary: true, repeat: 1 });
        v.push(TCase { transport: t.into(), auth: Auth::AdminDb, lines: vec!["snapshot true probe".into(), "keys".into()], binary: false, repeat: 1 });
    }
    v
}

pub fn transport_case_strategy() -> impl Strategy<Value = TCase> {
    (select(vec!["tcp", "http", "ws"]), select(vec![Auth::None, Auth::AdminDb, Auth::DbToken]), prop::collection::vec(line_strategy(), 1..4), prop::bool::weighted(0.15), prop_oneof![5 => Just(1u32), 1 => Just(120u32)])
        .prop_map(|(t, auth, lines, binary, repeat)| TCase { transport: t.to_string(), auth, lines: lines.into_iter().map(|l| l.replace('\n', " ").replace(';', ",")).collect(), binary, repeat })
}

/// runs the transport engine in this worker: fixed family (quick and thorough) + generated cases (thorough)

// ------------------------------------------------------------------------------------------------
// every command of a TCP connection is answered, however the bytes arrive: many lines in one segment (more than the
// session's channel holds), one line in two segments
// ------------------------------------------------------------------------------------------------

#[derive(Clone, Debug, Serialize, Deserialize)]
pub struct PipeCase {
    /// number of `set` lines sent in one write
    pub n: u32,
    /// the bytes are written in two parts, cut at this per-mille position of the payload, with a pause in between
    pub split_permille: Option<u32>,
    /// length of every value
    pub value_len: u32,
    /// the values hold two-byte characters and the cut falls between the two bytes of one of them
    #[serde(default)]
    pub cut_inside_char: bool,
}

pub fn run_pipe_case(srv: &TServer, case: &PipeCase) -> Outcome {
    use std::io::{Read, Write};
    use std::sync::atomic::{AtomicU64, Ordering};
    static COUNTER: AtomicU64 = AtomicU64::new(0);
    let tag = COUNTER.fetch_add(1, Ordering::SeqCst);
    let mut out = Outcome::ok(case.n > 100 || case.split_permille.is_some());
    out.classes.push(if case.split_permille.is_some() { "tcp-line-in-two-segments" } else { "tcp-pipelined-lines" });
    let val = |i: u32| if case.cut_inside_char { format!("v{}x{}", i, "é".repeat(case.value_len as usize)) } else { format!("v{}x{}", i, "y".repeat(case.value_len as usize)) };
    let mut payload = String::from("use-db probe ptok\n");
    for i in 0..case.n {
        payload.push_str(&format!("set p{}k{} {}\n", tag, i, val(i)));
    }
    payload.push_str(&format!("get p{}k{}\n", tag, case.n - 1));
    let bytes = payload.as_bytes();
    let run = || -> Result<Vec<String>, String> {
        let mut s = std::net::TcpStream::connect(("127.0.0.1", srv.tcp)).map_err(|e| format!("connect: {}", e))?;
        s.set_read_timeout(Some(std::time::Duration::from_millis(100))).ok();
        match case.split_permille {
            Some(pm) => {
                let mut cut = ((bytes.len() as u64 * pm as u64) / 1000).clamp(1, bytes.len() as u64 - 1) as usize;
                if case.cut_inside_char {
                    // move the cut to the nearest place between the two bytes of an é (0xC3 | 0xA9)
                    let pos = (0..bytes.len() - 1).filter(|i| bytes[*i] == 0xC3 && bytes[*i + 1] == 0xA9).min_by_key(|i| (*i as i64 + 1 - cut as i64).abs());
                    if let Some(i) = pos {
                        cut = i + 1;
                    }
                }
                s.write_all(&bytes[..cut]).map_err(|e| format!("write: {}", e))?;
                s.flush().ok();
                crate::transport::real_sleep(std::time::Duration::from_millis(300));
                s.write_all(&bytes[cut..]).map_err(|e| format!("write: {}", e))?;
            }
            None => s.write_all(bytes).map_err(|e| format!("write: {}", e))?,
        }
        // answers come in order: once the sentinel sent AFTER the value line was seen is acknowledged, whatever was going
        // to be answered before it has been
        let t0 = std::time::Instant::now();
        let mut got: Vec<u8> = vec![];
        let mut buf = [0u8; 8192];
        let mut sentinel_sent = false;
        let value_line = format!("value {}", val(case.n - 1));
        let mut lines_at_sentinel = 0usize;
        while t0.elapsed() < std::time::Duration::from_secs(30) {
            match s.read(&mut buf) {
                Ok(0) => break,
                Ok(k) => got.extend_from_slice(&buf[..k]),
                Err(e) if e.kind() == std::io::ErrorKind::WouldBlock || e.kind() == std::io::ErrorKind::TimedOut => {}
                Err(e) => return Err(format!("read: {}", e)),
            }
            let text = String::from_utf8_lossy(&got).to_string();
            let complete: Vec<&str> = text.split('\n').collect();
            let nlines = complete.len() - 1;
            if !sentinel_sent && (text.contains(&value_line) || t0.elapsed() > std::time::Duration::from_secs(5)) {
                // (without the value line after 5 s the sentinel goes out all the same: the answer is judged missing below)
                s.write_all(b"keys sentinel-never-there\n").map_err(|e| format!("write: {}", e))?;
                sentinel_sent = true;
                lines_at_sentinel = nlines;
            }
            if sentinel_sent && text.contains("keys \n") && nlines > lines_at_sentinel {
                // the sentinel's own answer (`keys ` with an empty list) and its ok
                if text.trim_end().ends_with("ok") {
                    break;
                }
            }
        }
        Ok(String::from_utf8_lossy(&got).split('\n').map(|l| l.trim_end().to_string()).filter(|l| !l.is_empty()).collect())
    };
    match run() {
        Err(e) => {
            eprintln!("C10 tcp engine: {}", e);
            out.nontrivial = false;
        }
        Ok(lines) => {
            let oks = lines.iter().filter(|l| l.as_str() == "ok").count();
            let errors: Vec<&String> = lines.iter().filter(|l| l.starts_with("error")).collect();
            let has_value = lines.iter().any(|l| *l == format!("value {}", val(case.n - 1)));
            // greeting + use-db + n sets + get + sentinel
            let want_oks = case.n as usize + 4;
            let stored = srv.node.dump_db("probe").map(|m| (0..case.n).filter(|i| m.get(&format!("p{}k{}", tag, i)).map(|v| v.0 == val(*i)).unwrap_or(false)).count()).unwrap_or(0);
            let how = if case.cut_inside_char { "cut-inside-a-multi-byte-character" } else if case.split_permille.is_some() { "one-line-in-two-segments" } else { "lines-in-one-segment" };
            if !errors.is_empty() || stored != case.n as usize {
                out.fail = Some((format!("C10|transport|tcp|command-not-executed-as-sent|{}", how), format!("{} set lines + 1 get over TCP ({}): {} of the keys hold their value afterwards; error answers {:?}", case.n, how, stored, errors.iter().take(3).collect::<Vec<_>>())));
            } else if oks < want_oks || !has_value {
                out.fail = Some((format!("C10|transport|tcp|answers-missing|{}", how), format!("{} set lines + 1 get over TCP ({}): all executed, but {} `ok` lines arrived where {} commands were sent (greeting included){}", case.n, how, oks, want_oks, if has_value { "" } else { " and the value of the get never arrived" })));
            }
        }
    }
    out
}

fn pipe_family() -> Vec<PipeCase> {
    let mut v = vec![];
    for n in [1u32, 20, 99, 101, 150, 400] {
        v.push(PipeCase { n, split_permille: None, value_len: 3, cut_inside_char: false });
    }
    for (n, len) in [(1u32, 3u32), (3, 3), (1, 3000), (2, 70_000)] {
        for pm in [300u32, 500, 900, 990] {
            v.push(PipeCase { n, split_permille: Some(pm), value_len: len, cut_inside_char: false });
        }
    }
    for (n, len) in [(1u32, 3u32), (2, 40), (1, 3000)] {
        for pm in [400u32, 700, 950] {
            v.push(PipeCase { n, split_permille: Some(pm), value_len: len, cut_inside_char: true });
        }
    }
    v
}


// ------------------------------------------------------------------------------------------------
// commands of different clients that take the same locks, on real threads: the node keeps serving
// ------------------------------------------------------------------------------------------------

#[derive(Clone, Debug, Serialize, Deserialize)]
pub struct ThreadsCase {
    /// one program per client thread; `{i}` is replaced by the round number
    pub programs: Vec<Vec<String>>,
    pub rounds: u32,
}

/// Runs the programs on one thread each, round after round. A node that wedges is recognised by progress, not by speed:
/// NO thread completes a single command for 30 s (each command takes microseconds), and a fresh client's `get` started
/// after that does not come back either.
pub fn run_threads_case(ctx: &Ctx, case: &ThreadsCase) -> Outcome {
    use std::sync::atomic::{AtomicBool, AtomicU64, Ordering};
    use std::sync::Arc;
    crate::interpose::set_sleep_hook(None);
    let dir = ctx.fresh_dir();
    let mut node = Node::boot_single(&dir);
    let mut admin = Session::new();
    admin.auth(&node);
    admin.send(&node, "create-db probe ptok");
    admin.send(&node, "create-db other-db otok");
    node.pump();
    crate::transport::run_services_in_background(&mut node);
    let progress: Vec<Arc<AtomicU64>> = case.programs.iter().map(|_| Arc::new(AtomicU64::new(0))).collect();
    let done: Vec<Arc<AtomicBool>> = case.programs.iter().map(|_| Arc::new(AtomicBool::new(false))).collect();
    for (t, prog) in case.programs.iter().enumerate() {
        let (dbs, prog, rounds, progress, done) = (node.dbs.clone(), prog.clone(), case.rounds, progress[t].clone(), done[t].clone());
        std::thread::spawn(move || {
            let (mut client, mut rx) = nundb::bo::Client::new_empty_and_receiver();
            nundb::process_request::process_request(&format!("auth {} {}", crate::node::USER, crate::node::PWD), &dbs, &mut client);
            nundb::process_request::process_request("use-db probe ptok", &dbs, &mut client);
            for i in 0..rounds {
                for l in prog.iter() {
                    let _ = std::panic::catch_unwind(std::panic::AssertUnwindSafe(|| nundb::process_request::process_request(&l.replace("{i}", &format!("t{}r{}", t, i)), &dbs, &mut client)));
                    while let Ok(Some(_)) = rx.try_next() {}
                    progress.fetch_add(1, Ordering::SeqCst);
                }
            }
            done.store(true, Ordering::SeqCst);
        });
    }
    let mut out = Outcome::ok(true);
    out.classes.push("real-threads");
    let mut last: Vec<u64> = progress.iter().map(|p| p.load(Ordering::SeqCst)).collect();
    let mut last_change = std::time::Instant::now();
    let mut wedged = false;
    loop {
        if done.iter().all(|d| d.load(Ordering::SeqCst)) {
            break;
        }
        crate::transport::real_sleep(std::time::Duration::from_millis(50));
        let now: Vec<u64> = progress.iter().map(|p| p.load(Ordering::SeqCst)).collect();
        if now != last {
            last = now;
            last_change = std::time::Instant::now();
        } else if last_change.elapsed() > std::time::Duration::from_secs(30) {
            wedged = true;
            break;
        }
    }
    if wedged {
        // a fresh client
        let served = Arc::new(AtomicBool::new(false));
        let (dbs, served2) = (node.dbs.clone(), served.clone());
        std::thread::spawn(move || {
            let (mut client, _rx) = nundb::bo::Client::new_empty_and_receiver();
            nundb::process_request::process_request("use-db other-db otok", &dbs, &mut client);
            nundb::process_request::process_request("get anything", &dbs, &mut client);
            served2.store(true, Ordering::SeqCst);
        });
        crate::transport::real_sleep(std::time::Duration::from_secs(10));
        if !served.load(Ordering::SeqCst) {
            let words: Vec<String> = case.programs.iter().map(|p| word_of(p.first().map(|s| s.as_str()).unwrap_or(""))).collect();
            out.fail = Some((format!("C10|node-wedged|{}", words.join("+")), format!("client threads running {:?} stopped making progress after {:?} commands each; 30 s later a fresh client's use-db + get has not come back after another 10 s: the node serves nobody", case.programs, last)));
        }
        // (the stuck threads hold the node's locks: nothing of it can be dropped)
        std::mem::forget(node);
        return out;
    }
    out.counters.push(("commands", last.iter().sum()));
    drop(node);
    ctx.drop_dir(&dir);
    out
}

fn threads_family(ctx: &Ctx) -> Vec<ThreadsCase> {
    let rounds = ctx.amount(4000, 20_000);
    let progs: Vec<Vec<&str>> = vec![
        vec!["snapshot false probe"],
        vec!["create-db x{i} tok"],
        vec!["snapshot false probe|other-db"],
        vec!["set k {i}", "get k"],
        vec!["use-db other-db otok", "use-db probe ptok"],
        vec!["keys *", "debug list-dbs"],
    ];
    let mut v = vec![];
    for a in 0..progs.len() {
        for b in (a + 1)..progs.len() {
            v.push(ThreadsCase { programs: vec![progs[a].iter().map(|s| s.to_string()).collect(), progs[b].iter().map(|s| s.to_string()).collect()], rounds });
        }
    }
    v
}

/// every line of a TCP connection is answered, also one that is no text: a line of bytes that are no UTF-8 between two
/// commands gets an answer of its own (an error), the commands around it get theirs
#[derive(Clone, Debug, Serialize, Deserialize)]
pub struct NoTextCase {
    pub bad: Vec<u8>,
}

pub fn run_no_text_case(srv: &TServer, case: &NoTextCase) -> Outcome {
    let mut payload: Vec<u8> = b"use-db probe ptok\n".to_vec();
    payload.extend_from_slice(&case.bad);
    payload.extend_from_slice(b"\nget k-no-text\n");
    let mut out = Outcome::ok(true);
    out.classes.push("tcp-line-that-is-no-text");
    match crate::transport::tcp_exchange_until(srv.tcp, &payload, "value ", 30_000) {
        Err(e) => {
            eprintln!("C10 no-text engine: {}", e);
            out.nontrivial = false;
        }
        Ok(got) => {
            // greeting ok, ok for use-db, ONE answer for the line that is no text, the value and the ok of the get
            let lines: Vec<&str> = got.lines().collect();
            let before_value = lines.iter().take_while(|l| !l.starts_with("value ")).count();
            if !got.contains("value ") {
                out.fail = Some(("C10|tcp|no-text-line|session-stopped-answering".to_string(), format!("after a line of {:?} the get that follows was not answered within 30 s: {:?}", case.bad, got)));
            } else if before_value != 3 {
                out.fail = Some(("C10|tcp|no-text-line|not-answered".to_string(), format!("use-db, a line of the bytes {:?}, get: {} lines before the value (the greeting, the ok of use-db and one answer for the line that is no text = 3): {:?}", case.bad, before_value, got)));
            }
        }
    }
    if out.fail.is_none() {
        out.fail = probe_transports(srv, "tcp|no-text");
    }
    out
}

pub fn run_transports(ctx: &Ctx, rep: &mut Report) {
    let srv = std::cell::RefCell::new(TServer::start(ctx));
    let eval = |c: &TCase| {
        let o = run_transport_case(&srv.borrow(), c);
        if o.fail.is_some() {
            // the servers may be damaged: later cases get fresh ones
            let fresh = TServer::start(ctx);
            *srv.borrow_mut() = fresh;
        }
        o
    };
    enumerate(ctx, rep, "transports-fixed", fixed_transport_cases().into_iter(), &eval);
    if rep.failures.is_empty() {
        enumerate(ctx, rep, "transports-tcp-pipelines-and-segments", pipe_family().into_iter(), |c| run_pipe_case(&srv.borrow(), c));
    }
    if rep.failures.is_empty() {
        let cases = vec![NoTextCase { bad: vec![0xff, 0xfe] }, NoTextCase { bad: b"get \xff\xfe\xfd".to_vec() }, NoTextCase { bad: vec![b's', b'e', b't', b' ', b'k', b' ', 0xc3] }, NoTextCase { bad: vec![0x80] }];
        enumerate(ctx, rep, "transports-tcp-line-that-is-no-text", cases.into_iter(), |c| run_no_text_case(&srv.borrow(), c));
    }
    if !ctx.quick() && rep.failures.is_empty() {
        explore(ctx, rep, "transports-generated", 6000, transport_case_strategy(), &eval);
    }
}
