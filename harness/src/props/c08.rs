//! C08 — `$$` keys are invisible and immutable to non-administrators (two-run noninterference + integrity).
use crate::node::{resp_text, Node, Session};
use crate::report::{enumerate, explore, replay_guarded, Ctx, Outcome, Report};
use proptest::prelude::*;
use proptest::sample::select;
use serde::{Deserialize, Serialize};
use serde_json::Value as J;
use std::collections::BTreeMap;

pub const DB: &str = "d";
pub const DBTOK: &str = "dbtok";

// (the last three: a secure key spelled with a line break in front of / inside its prefix; nun-db drops line breaks from
// key names, the access check and the look-up must mean the same key)
pub const KEY_ARGS: &[&str] = &["$$secret", "$$token", "$$user_other", "$$permission_$other", "$$permission_$bob", "$$user_bob", "$secret", "secret", "a", "\r$$secret", "$\r$secret", "$\n$token"];
pub const PATTERNS: &[&str] = &["*", "$$*", "*$$", "", "$$", "$$s*", "*t", "$*"];

/// one attacker command, built from a template so it is well-formed enough to reach the handlers
#[derive(Clone, Debug, Serialize, Deserialize, PartialEq)]
pub enum Cmd {
    /// word + key (+ fixed tail): get, get-safe, remove, watch, unwatch, increment, set, set-safe
    Key { word: String, key: String },
    Keys { word: String, pattern: String },
    Resolve { key: String, version: i32 },
    Replicate { word: String, key: String },
    /// any other command line, verbatim
    Raw { line: String },
    /// the same line wrapped as a replication request
    Rp { inner: Box<Cmd> },
    /// the administrators (same script on both servers) touch a secret key and a shared plain key
    AdminTouch { n: u8 },
    /// two administrator sessions write a secret key with the same (stale) version: on a database with the arbiter
    /// strategy that is a conflict, which the node hands to whoever registered as arbiter
    AdminConflict { n: u8 },
    /// `keys $conflicts`, then `get` of every key it lists
    GetListedConflicts,
}

pub fn render(c: &Cmd) -> String {
    render_db(c, DB)
}

pub fn render_db(c: &Cmd, db_name: &str) -> String {
    match c {
        Cmd::Key { word, key } => match word.as_str() {
            "set" => format!("set {} attacker-value", key),
            "set-safe" => format!("set-safe {} 9 attacker-value", key),
            "increment" => format!("increment {} 3", key),
            w => format!("{} {}", w, key),
        },
        Cmd::Keys { word, pattern } => format!("{} {}", word, pattern),
        Cmd::Resolve { key, version } => format!("resolve 77 {} {} {} attacker-value", db_name, key, version),
        Cmd::Replicate { word, key } => match word.as_str() {
            "replicate" => format!("replicate {} {} 5 attacker-value", db_name, key),
            "replicate-increment" => format!("replicate-increment {} {} 2", db_name, key),
            _ => format!("replicate-remove {} {}", db_name, key),
        },
        Cmd::Raw { line } => line.clone(),
        Cmd::Rp { inner } => format!("rp 5 {}", render_db(inner, db_name)),
        Cmd::AdminTouch { .. } | Cmd::AdminConflict { .. } => String::new(),
        Cmd::GetListedConflicts => "keys $conflicts".to_string(),
    }
}

pub fn raw_lines() -> Vec<&'static str> {
    vec![
        // one command that carries a line break (possible over HTTP and WebSocket) followed by text that would be a
        // replication command if it stood on a line of its own
        "election active x\nreplicate d $$secret -1 attacker-value",
        "election active x\nreplicate-remove d $$hidden",
        "set a 1\nreplicate d $$secret -1 attacker-value",
        "get a\nrp 5 replicate d $$secret -1 attacker-value",
        "leave x\nreplicate d $$secret -1 attacker-value",
        // (a key that carries the line break: `set-safe <key> <version> <value>` is replicated as `replicate d <key> <version> <value>`)
        "set-safe a\nrp 5 replicate d $$secret -1 attacker-value",
        "set a\nreplicate-remove d $$hidden",
        "unwatch-all",
        "arbiter",
        "snapshot false",
        "snapshot true d",
        "create-db x xtok",
        "create-user eve evetok",
        "set-permissions bob rwix *",
        "set-permissions eve rwix *",
        "use-db d wrongtok",
        "use-db d bob wrongtok",
        "use-db d other othertok-guess",
        "use-db $admin guess",
        "auth admin-user wrong",
        "auth x",
        "cluster-state",
        "metrics-state",
        "debug pending-ops",
        "debug pendding-conflitcts",
        "debug list-dbs",
        "debug process-info",
        "list-commands",
        "replicate-snapshot d false",
        "replicate-since n1:1 0",
        "replicate-join n9:1",
        "replicate-leave n9:1",
        "set-primary n9:1",
        "set-secoundary n9:1",
        "election win",
        "election active n9:1",
        "ack 5 n9:1",
        "join",
        "leave",
        "unknown-word x",
        "",
    ]
}

pub fn cmd_strategy() -> impl Strategy<Value = Cmd> {
    let key = select(KEY_ARGS.to_vec()).prop_map(|s| s.to_string());
    let leaf = prop_oneof![
        6 => (select(vec!["get", "get-safe", "set", "set-safe", "remove", "increment", "watch", "unwatch"]), key.clone()).prop_map(|(w, key)| Cmd::Key { word: w.to_string(), key }),
        2 => (select(vec!["keys", "ls"]), select(PATTERNS.to_vec())).prop_map(|(w, p)| Cmd::Keys { word: w.to_string(), pattern: p.to_string() }),
        2 => (key.clone(), select(vec![0, 1, -1, 5])).prop_map(|(key, version)| Cmd::Resolve { key, version }),
        2 => (select(vec!["replicate", "replicate-increment", "replicate-remove"]), key.clone()).prop_map(|(w, key)| Cmd::Replicate { word: w.to_string(), key }),
        3 => select(raw_lines()).prop_map(|l| Cmd::Raw { line: l.to_string() }),
    ];
    prop_oneof![
        8 => leaf.clone(),
        1 => leaf.prop_map(|c| Cmd::Rp { inner: Box::new(c) }),
        1 => (0..3u8).prop_map(|n| Cmd::AdminTouch { n }),
        1 => (0..3u8).prop_map(|n| Cmd::AdminConflict { n }),
        1 => Just(Cmd::GetListedConflicts),
    ]
}

#[derive(Clone, Debug, Serialize, Deserialize)]
pub struct Case {
    /// "dbtoken" or "user"
    pub session: String,
    /// permission list of the attacking user bob ("" = none)
    pub perms: String,
    pub cmds: Vec<Cmd>,
    /// the database uses the arbiter strategy (conflicting versioned writes are handed to a registered arbiter)
    #[serde(default)]
    pub arbiter_db: bool,
}

pub fn perms_pool() -> Vec<&'static str> {
    vec!["", "rwix *", "r *", "w *", "rw s*|x a", "rwix $$*", "i *t,a|r secret"]
}

pub fn case_strategy() -> impl Strategy<Value = Case> {
    (select(vec!["dbtoken", "user"]), select(perms_pool()), prop::collection::vec(cmd_strategy(), 1..9))
        .prop_map(|(s, p, cmds)| Case { session: s.to_string(), perms: p.to_string(), cmds, arbiter_db: false })
        .prop_flat_map(|c| prop::bool::weighted(0.4).prop_map(move |a| Case { arbiter_db: a, ..c.clone() }))
}

/// secrets of server variant `v` (0 or 1); variant 1 additionally lacks one secret key
fn secrets(v: usize) -> Vec<(String, Option<String>)> {
    let sfx = if v == 0 { "alpha" } else { "omega-longer" };
    vec![
        ("$$secret".to_string(), if v == 0 { Some(format!("topsecret-{}", sfx)) } else { None }),
        ("$$user_other".to_string(), Some(format!("othertok-{}", sfx))),
        ("$$permission_$other".to_string(), Some(if v == 0 { "rw *".to_string() } else { "x zz*".to_string() })),
        ("$$hidden".to_string(), Some(format!("h-{}", sfx))),
    ]
}

pub struct Server {
    pub node: Node,
    pub admin: Session,
}

pub fn build_server(dir: &str, variant: usize, case: &Case) -> Server {
    let mut node = Node::boot_single(dir);
    let mut admin = Session::new();
    admin.auth(&node);
    admin.send(&node, &format!("create-db {} {}{}", DB, DBTOK, if case.arbiter_db { " arbiter" } else { "" }));
    admin.send(&node, &format!("use-db {} {}", DB, DBTOK));
    admin.send(&node, "set secret plainvalue");
    admin.send(&node, "set a 1");
    admin.send(&node, "set $secret single-dollar");
    for (k, v) in secrets(variant) {
        if let Some(v) = v {
            admin.send(&node, &format!("set {} {}", k, v));
        }
    }
    // the attacker's own credentials are the same on both servers
    admin.send(&node, "create-user bob bobtok");
    if !case.perms.is_empty() {
        admin.send(&node, &format!("set-permissions bob {}", case.perms));
    }
    node.pump();
    admin.drain();
    Server { node, admin }
}

fn secure_dump(node: &Node) -> BTreeMap<String, (String, i32, bool)> {
    secure_dump_db(node, DB)
}

fn secure_dump_db(node: &Node, db: &str) -> BTreeMap<String, (String, i32, bool)> {
    node.dump_db(db).unwrap_or_default().into_iter().filter(|(k, _)| k.starts_with("$$")).collect()
}

// ------------------------------------------------------------------ the same pairs over HTTP
// Every HTTP request is a session of its own, served by one of four worker threads that also serve the
// administrators' requests: the attacker's requests are interleaved with administrator requests on the same server.

pub struct HttpServer {
    pub node: Node,
    pub port: u16,
}

pub struct HttpPair {
    pub servers: [HttpServer; 2],
    pub counter: std::cell::Cell<u64>,
}

pub fn start_http_pair(ctx: &Ctx) -> HttpPair {
    let mk = |v: usize| {
        let dir = ctx.scratch.join(format!("http-{}", v)).to_str().unwrap().to_string();
        std::fs::create_dir_all(&dir).unwrap();
        let mut node = Node::boot_single(&dir);
        crate::transport::run_services_in_background(&mut node);
        let port = crate::transport::start_http(node.dbs.clone());
        HttpServer { node, port }
    };
    HttpPair { servers: [mk(0), mk(1)], counter: std::cell::Cell::new(0) }
}

pub fn run_http_case(pair: &HttpPair, case: &Case) -> Outcome {
    let n = pair.counter.get();
    pair.counter.set(n + 1);
    let db = format!("h{}", n);
    for (v, srv) in pair.servers.iter().enumerate() {
        // set-up by an in-process administrator session that disconnects afterwards
        let mut admin = Session::new();
        admin.auth(&srv.node);
        admin.send(&srv.node, &format!("create-db {} {}", db, DBTOK));
        admin.send(&srv.node, &format!("use-db {} {}", db, DBTOK));
        for l in ["set secret plainvalue", "set a 1", "set $secret single-dollar"] {
            admin.send(&srv.node, l);
        }
        for (k, val) in secrets(v) {
            if let Some(val) = val {
                admin.send(&srv.node, &format!("set {} {}", k, val));
            }
        }
        admin.send(&srv.node, "create-user bob bobtok");
        if !case.perms.is_empty() {
            admin.send(&srv.node, &format!("set-permissions bob {}", case.perms));
        }
        admin.send(&srv.node, "unwatch-all");
        admin.client.left(&srv.node.dbs);
    }
    let login = if case.session == "user" { format!("use-db {} bob bobtok", db) } else { format!("use-db {} {}", db, DBTOK) };
    let mut out = Outcome::ok(false);
    out.classes.push("over-http");
    let mut admin_requests = 0u64;
    let mut attacker_after_admin = false;
    for (i, c) in case.cmds.iter().enumerate() {
        if let Cmd::AdminTouch { n } = c {
            for (v, srv) in pair.servers.iter().enumerate() {
                let sv = if v == 0 { format!("rotated-{}-alpha", n) } else { format!("rotated-{}-omega-x", n) };
                // more requests than the server has workers: each worker has served an administrator afterwards
                for _ in 0..6 {
                    let body = format!("auth {} {}; use-db {} {}; set $$secret {}; set shared s{}", crate::node::USER, crate::node::PWD, db, DBTOK, sv, n);
                    if let Err(e) = crate::transport::http_post(srv.port, &body) {
                        eprintln!("C08 http engine: administrator request failed: {}", e);
                        return out;
                    }
                    admin_requests += 1;
                }
            }
            continue;
        }
        let line = render_db(c, &db);
        let body = format!("{}; {}", login, line);
        let mut replies = vec![];
        for (v, srv) in pair.servers.iter().enumerate() {
            let before = secure_dump_db(&srv.node, &db);
            let reply = match crate::transport::http_post(srv.port, &body) {
                Ok((status, text)) => format!("{} | {}", status, text),
                Err(e) => format!("ERR {}", e.split(':').next().unwrap_or("")),
            };
            let after = secure_dump_db(&srv.node, &db);
            let word = line.split(' ').next().unwrap_or("").to_string();
            let word = if word == "rp" { format!("rp+{}", line.split(' ').nth(2).unwrap_or("")) } else { word };
            if after != before {
                let changed: Vec<String> = after.iter().filter(|(k, val)| before.get(*k) != Some(val)).map(|(k, _)| k.clone()).chain(before.keys().filter(|k| !after.contains_key(*k)).cloned()).collect();
                out.fail = Some((format!("C08|integrity-over-http|{}", word), format!("step {}: the non-admin ({}) HTTP request {:?} changed secure keys {:?} on server variant {} ({} administrator requests were served before)", i, case.session, body, changed, v, admin_requests)));
                return out;
            }
            replies.push((word, reply));
        }
        if admin_requests > 0 {
            attacker_after_admin = true;
        }
        if replies[0].1 != replies[1].1 {
            out.fail = Some((format!("C08|leak-over-http|{}", replies[0].0), format!("step {}: the non-admin ({}) HTTP request {:?} is answered differently by two servers that differ only in secret contents ({} administrator requests were served before):\n  A: {}\n  B: {}", i, case.session, body, admin_requests, replies[0].1, replies[1].1)));
            return out;
        }
    }
    out.nontrivial = attacker_after_admin;
    if attacker_after_admin {
        out.classes.push("non-admin-http-request-after-administrator-requests");
    }
    out
}

/// runs the attacker's sequence; returns (transcript, integrity failure)
fn run_on(dir: &str, variant: usize, case: &Case) -> (Vec<String>, Option<(String, String)>) {
    let mut srv = build_server(dir, variant, case);
    let mut att = Session::new();
    if case.session == "user" {
        att.send(&srv.node, &format!("use-db {} bob bobtok", DB));
    } else {
        att.send(&srv.node, &format!("use-db {} {}", DB, DBTOK));
    }
    srv.node.pump();
    let mut before = secure_dump(&srv.node);
    let mut transcript = vec![];
    let mut integrity = None;
    for (i, c) in case.cmds.iter().enumerate() {
        if let Cmd::AdminTouch { n } = c {
            // same script on both servers, secret contents differ
            let sv = if variant == 0 { format!("rotated-{}-alpha", n) } else { format!("rotated-{}-omega-x", n) };
            srv.admin.send(&srv.node, &format!("set $$secret {}", sv));
            srv.admin.send(&srv.node, &format!("set shared s{}", n));
            srv.node.pump();
            srv.admin.drain();
            before = secure_dump(&srv.node);
            transcript.push(format!("[{}] admin-touch -> {:?}", i, att.drain()));
            continue;
        }
        if let Cmd::AdminConflict { n } = c {
            // two writers present the same stale version of a secret key, contents differ between the servers
            // (an administrator is registered as arbiter, so the conflict is recorded whoever else is)
            srv.admin.send(&srv.node, "arbiter");
            for w in 0..2 {
                let sv = if variant == 0 { format!("conflict-{}-{}-alpha", n, w) } else { format!("conflict-{}-{}-omega-x", n, w) };
                srv.admin.send(&srv.node, &format!("set-safe $$secret 0 {}", sv));
            }
            srv.node.pump();
            srv.admin.drain();
            before = secure_dump(&srv.node);
            transcript.push(format!("[{}] admin-conflict -> {:?}", i, att.drain()));
            continue;
        }
        if let Cmd::GetListedConflicts = c {
            let listed = match att.send_caught(&srv.node, "keys $conflicts") {
                Ok((_, msgs)) => msgs,
                Err(p) => vec![format!("PANIC {}", p)],
            };
            let mut t = format!("[{}] get-listed-conflicts -> {:?}", i, listed);
            for k in listed.iter().flat_map(|m| m.trim_end().trim_start_matches("keys ").split(',').map(|x| x.to_string()).collect::<Vec<_>>()).filter(|k| k.starts_with("$conflicts_")) {
                if let Ok((r, msgs)) = att.send_caught(&srv.node, &format!("get {}", k)) {
                    t.push_str(&format!(" | get {} -> {} {:?}", k, resp_text(&r), msgs));
                }
            }
            srv.node.pump();
            transcript.push(t);
            continue;
        }
        let line = render(c);
        let res = att.send_caught(&srv.node, &line);
        srv.node.pump();
        match res {
            Ok((r, msgs)) => transcript.push(format!("[{}] {} -> {} {:?}", i, line, resp_text(&r), msgs)),
            Err(p) => transcript.push(format!("[{}] {} -> PANIC {}", i, line, p)),
        }
        let after = secure_dump(&srv.node);
        if after != before && integrity.is_none() {
            let changed: Vec<String> = after.iter().filter(|(k, v)| before.get(*k) != Some(v)).map(|(k, _)| k.clone()).chain(before.keys().filter(|k| !after.contains_key(*k)).cloned()).collect();
            let word = line.split(' ').next().unwrap_or("").to_string();
            let word = if word == "rp" { format!("rp+{}", line.split(' ').nth(2).unwrap_or("")) } else { word };
            integrity = Some((format!("C08|integrity|{}", word), format!("non-admin ({}) command {:?} changed secure keys {:?} on server variant {}", case.session, line, changed, variant)));
        }
    }
    (transcript, integrity)
}

pub fn run_case(ctx: &Ctx, case: &Case) -> Outcome {
    let d0 = ctx.fresh_dir();
    let (t0, i0) = run_on(&d0, 0, case);
    ctx.drop_dir(&d0);
    let d1 = ctx.fresh_dir();
    let (t1, i1) = run_on(&d1, 1, case);
    ctx.drop_dir(&d1);
    let nontrivial = case.cmds.iter().any(|c| match c {
        Cmd::Key { .. } => false, // the five cases the unit tests cover (on one fixed key each)
        Cmd::Keys { pattern, .. } => ["*", "$$*", "", "$$", "$$s*", "$*", "*t"].contains(&pattern.as_str()),
        Cmd::Resolve { key, .. } | Cmd::Replicate { key, .. } => key.starts_with("$$"),
        Cmd::Rp { inner } => match &**inner {
            Cmd::Key { key, .. } | Cmd::Resolve { key, .. } | Cmd::Replicate { key, .. } => key.starts_with("$$"),
            _ => false,
        },
        _ => false,
    });
    let mut out = Outcome::ok(nontrivial);
    if case.session == "user" {
        out.classes.push("user-token-session");
    } else {
        out.classes.push("db-token-session");
    }
    if let Some(f) = i0.or(i1) {
        out.fail = Some(f);
        return out;
    }
    // (operation ids are times of the node's clock: they differ between two runs and say nothing about secrets)
    let mask = |s: &String| -> String {
        let mut out = String::new();
        let mut run = String::new();
        for ch in s.chars().chain(std::iter::once(' ')) {
            if ch.is_ascii_digit() {
                run.push(ch);
            } else {
                if run.len() >= 15 {
                    out.push_str("<id>");
                } else {
                    out.push_str(&run);
                }
                run.clear();
                out.push(ch);
            }
        }
        out
    };
    for (a, b) in t0.iter().zip(t1.iter()) {
        if mask(a) != mask(b) {
            let line = a.split(" -> ").next().unwrap_or("").splitn(2, ' ').nth(1).unwrap_or("").to_string();
            let word = line.split(' ').next().unwrap_or("").to_string();
            let word = if word == "rp" { format!("rp+{}", line.split(' ').nth(2).unwrap_or("")) } else { word };
            // (the register of a conflict on a secure key is kept under a plain key, $conflicts_$$<key>_<id>: what is seen
            // of it is one recorded root cause, any other difference is not)
            let sig = if a.contains("$conflicts_$$") || b.contains("$conflicts_$$") {
                "C08|leak|conflict-record-of-a-secure-key".to_string()
            } else if [a, b].iter().any(|l| l.contains("resolve ") && l.contains(" $$")) {
                // the conflict notice itself, pushed to a session that registered with `arbiter`
                "C08|leak|conflict-on-a-secure-key-sent-to-the-arbiter".to_string()
            } else {
                format!("C08|leak|{}", word)
            };
            out.fail = Some((sig, format!("transcripts differ between two servers that differ only in secret contents:\n  A: {}\n  B: {}", a, b)));
            return out;
        }
    }
    out
}

// ------------------------------------------------------------------ the attacker is connected to a secondary
// A secondary forwards some commands to the primary over its authenticated link: the `$$` rule has to hold before the
// forward. Two-node cluster (E3), the attacker's session stays connected to the secondary; after every command the
// cluster settles and the secure keys of BOTH nodes must be what they were.

pub fn run_cluster_case(ctx: &Ctx, case: &Case) -> Outcome {
    use crate::props::c04::boot_cluster;
    let scratch = ctx.fresh_dir();
    let mut c = match boot_cluster(&scratch, 2) {
        Ok(c) => c,
        Err(e) => {
            ctx.drop_dir(&scratch);
            return Outcome::failed("C08|set-up", e);
        }
    };
    let auth = format!("auth {} {}", crate::node::USER, crate::node::PWD);
    let mut setup = vec![auth.clone(), format!("create-db {} {}", DB, DBTOK), format!("use-db {} {}", DB, DBTOK), "set secret plainvalue".into(), "set a 1".into(), "set $secret single-dollar".into(), "set $$secret 41".into(), "set $$hidden h".into(), "create-user bob bobtok".into(), "create-user other othertok".into()];
    if !case.perms.is_empty() {
        setup.push(format!("set-permissions bob {}", case.perms));
    }
    c.client(0, setup);
    let mut out = Outcome::ok(true);
    out.classes.push("attacker-on-a-secondary");
    if !c.run(&mut |_| 0, 400_000) {
        out.fail = Some(("C08|set-up".into(), "the cluster did not become quiet after the set-up".into()));
    }
    let secure = |c: &crate::cluster::Cluster, i: usize| -> BTreeMap<String, (String, i32, bool)> { c.nodes[i].node.as_ref().unwrap().dump_db(DB).unwrap_or_default().into_iter().filter(|(k, _)| k.starts_with("$$")).collect() };
    if out.fail.is_none() {
        // (the attacker is connected to the secondary, or, for half of the generated cases, to the primary: what it sends
        // there is replicated to the secondary)
        let attacker_node = if case.cmds.len() % 2 == 0 && case.cmds.len() > 1 { 0 } else { 1 };
        let sid = c.open_session(attacker_node);
        let login = if case.session == "user" { format!("use-db {} bob bobtok", DB) } else { format!("use-db {} {}", DB, DBTOK) };
        c.session_send(sid, vec![login]);
        c.run(&mut |_| 0, 400_000);
        let before = [secure(&c, 0), secure(&c, 1)];
        for (i, cmd) in case.cmds.iter().enumerate() {
            if let Cmd::AdminTouch { .. } = cmd {
                continue;
            }
            let line = render(cmd);
            let reply = c.session_send(sid, vec![line.clone()]);
            // (a cluster that does not become quiet, e.g. the recorded resolve ping-pong, is not this property's business:
            // the secure keys are looked at all the same, then the case ends)
            let settled = c.run(&mut |_| 0, 20_000);
            for node in 0..2 {
                let now = secure(&c, node);
                if now != before[node] {
                    let changed: Vec<String> = now.iter().filter(|(k, v)| before[node].get(*k) != Some(v)).map(|(k, _)| k.clone()).chain(before[node].keys().filter(|k| !now.contains_key(*k)).cloned()).collect();
                    let word = line.split(' ').next().unwrap_or("").to_string();
                    let word = if word == "rp" { format!("rp+{}", line.split(' ').nth(2).unwrap_or("")) } else { word };
                    out.fail = Some((format!("C08|integrity-from-a-secondary|{}", word), format!("step {}: the non-admin ({}) session on n{} sent {:?} (reply {:?}): secure keys {:?} changed on n{} ({})", i, case.session, attacker_node, line, reply, changed, node, if node == 0 { "the primary" } else { "the secondary" })));
                    break;
                }
            }
            if out.fail.is_some() || !settled {
                break;
            }
        }
    }
    if out.fail.is_none() && !c.panics.is_empty() && !c.panics[0].contains("supervisor") {
        out.fail = Some((format!("C08|panic-on-a-secondary|{}", c.panics[0].chars().skip(3).take(40).collect::<String>()), format!("{:?}", c.panics)));
    }
    drop(c);
    ctx.drop_dir(&scratch);
    out
}

/// `remove $$token` is refused for administrators too
fn token_guard(ctx: &Ctx) -> Outcome {
    let dir = ctx.fresh_dir();
    let case = Case { session: "dbtoken".into(), perms: "".into(), cmds: vec![], arbiter_db: false };
    let mut srv = build_server(&dir, 0, &case);
    let mut out = Outcome::ok(true);
    for line in ["remove $$token", "rp 3 remove $$token", "replicate-remove d $$token"] {
        let (r, _) = srv.admin.send(&srv.node, line);
        srv.node.pump();
        let tok = secure_dump(&srv.node).get("$$token").cloned();
        if tok.as_ref().map(|t| t.0.as_str()) != Some(DBTOK) || tok.map(|t| t.2).unwrap_or(true) {
            out.fail = Some((format!("C08|token-removed|{}", line.split(' ').next().unwrap()), format!("admin {:?} -> {} removed or changed $$token", line, resp_text(&r))));
            break;
        }
    }
    drop(srv);
    ctx.drop_dir(&dir);
    out
}

fn single_commands() -> Vec<Cmd> {
    let mut v = vec![];
    for k in KEY_ARGS {
        for w in ["get", "get-safe", "set", "set-safe", "remove", "increment", "watch", "unwatch"] {
            v.push(Cmd::Key { word: w.to_string(), key: k.to_string() });
        }
        for ver in [0, -1] {
            v.push(Cmd::Resolve { key: k.to_string(), version: ver });
        }
        for w in ["replicate", "replicate-increment", "replicate-remove"] {
            v.push(Cmd::Replicate { word: w.to_string(), key: k.to_string() });
        }
    }
    for p in PATTERNS {
        v.push(Cmd::Keys { word: "keys".into(), pattern: p.to_string() });
    }
    for l in raw_lines() {
        v.push(Cmd::Raw { line: l.to_string() });
    }
    let wrapped: Vec<Cmd> = v.iter().map(|c| Cmd::Rp { inner: Box::new(c.clone()) }).collect();
    v.extend(wrapped);
    v
}

pub fn run(ctx: &Ctx, rep: &mut Report) {
    crate::interpose::virtual_clock(true);
    let n = ctx.amount(12_000, 400_000);
    explore(ctx, rep, "pairs", n, case_strategy(), |c| run_case(ctx, c));
    // every single command, for both session kinds and three permission lists, preceded by a watch of a secret
    let singles = single_commands();
    let mut cases = vec![];
    for s in ["dbtoken", "user"] {
        for p in ["", "rwix *", "rwix $$*"] {
            for c in singles.iter() {
                cases.push(Case { session: s.to_string(), perms: p.to_string(), cmds: vec![c.clone(), Cmd::AdminTouch { n: 1 }], arbiter_db: false });
            }
        }
    }
    if rep.failures.is_empty() {
        enumerate(ctx, rep, "all-single-commands", cases.into_iter(), |c| run_case(ctx, c));
    }
    if rep.failures.is_empty() {
        // the same pairs over the real HTTP front end, administrator requests first
        let pair = start_http_pair(ctx);
        let n = ctx.amount(1500, 60_000);
        let strat = case_strategy().prop_map(|mut c| {
            c.cmds.insert(0, Cmd::AdminTouch { n: 0 });
            c
        });
        explore(ctx, rep, "pairs-over-http", n, strat, |c| run_http_case(&pair, c));
    }
    if rep.failures.is_empty() {
        // every single command from a session connected to a secondary of a 2-node cluster, then generated sequences
        let mut cases = vec![];
        for s in ["dbtoken", "user"] {
            for p in ["", "rwix *"] {
                for c in single_commands().iter() {
                    if let Cmd::Rp { .. } = c {
                        continue;
                    }
                    cases.push(Case { session: s.to_string(), perms: p.to_string(), cmds: vec![c.clone()], arbiter_db: false });
                    // the same command from a session connected to the primary (a case of even length): what the primary
                    // answers ok is replicated to the secondary, which runs it with the link's rights and forwards
                    if p.is_empty() {
                        cases.push(Case { session: s.to_string(), perms: p.to_string(), cmds: vec![c.clone(), Cmd::AdminTouch { n: 0 }], arbiter_db: false });
                    }
                }
            }
        }
        enumerate(ctx, rep, "single-commands-on-a-secondary", cases.into_iter(), |c| run_cluster_case(ctx, c));
        if rep.failures.is_empty() {
            let n = ctx.amount(600, 20_000);
            crate::report::explore_with(ctx, rep, "sequences-on-a-secondary", n, 100, case_strategy(), |c| run_cluster_case(ctx, c));
        }
    }
    if ctx.worker == 0 && rep.failures.is_empty() {
        enumerate(ctx, rep, "token-guard", std::iter::once(0u8), |_| token_guard(ctx));
    }
}

pub fn replay(ctx: &Ctx, engine: &str, case: &J) -> Result<Option<(String, String)>, String> {
    crate::interpose::virtual_clock(true);
    if engine == "token-guard" {
        return Ok(token_guard(ctx).fail);
    }
    if engine.ends_with("on-a-secondary") {
        return replay_guarded::<Case>(ctx, case, |c| run_cluster_case(ctx, c));
    }
    if engine == "pairs-over-http" {
        let pair = start_http_pair(ctx);
        return replay_guarded::<Case>(ctx, case, |c| run_http_case(&pair, c));
    }
    replay_guarded::<Case>(ctx, case, |c| run_case(ctx, c))
}
