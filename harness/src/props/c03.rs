//! C03 — watchers get every committed change, only committed changes, and end up current.
use crate::node::{is_refusal, Node, Session};
use crate::report::{explore, replay_guarded, Ctx, Outcome, Report};
use crate::sched;
use proptest::prelude::*;
use proptest::sample::select;
use serde::{Deserialize, Serialize};
use serde_json::Value as J;

const KEYS: [&str; 2] = ["a", "n"]; // a: text values; n: integer (starts at 100)

#[derive(Clone, Debug, Serialize, Deserialize, PartialEq)]
pub enum W {
    /// a plain write of the constant text `same-text` to key a: two of them in a row store the text the key already
    /// holds, and each is a mutation that has to be notified
    SetSame,
    Set { k: usize },
    SetSafeFresh { k: usize },
    SetSafeStale { k: usize },
    Inc { n: i32 },
    Remove { k: usize },
    /// the same mutations as a peer sends them over a replication link
    RpSet { k: usize },
    RpInc { n: i32 },
    RpRemove { k: usize },
}

#[derive(Clone, Debug, Serialize, Deserialize, PartialEq)]
pub enum S {
    Watch { k: usize },
    Unwatch { k: usize },
    UnwatchAll,
    Disconnect,
    /// the session selects another database (e) and comes back later: its subscriptions are made in d
    UseOther,
    UseBack,
    /// the connection dies without the server running its clean-up (the receiver is dropped, no unwatch-all): the other
    /// subscribers must not notice
    Die,
}

#[derive(Clone, Debug, Serialize, Deserialize)]
pub struct Case {
    pub writers: Vec<Vec<W>>,
    pub subs: Vec<Vec<S>>,
    pub schedule: Vec<u16>,
    /// the subscribers spell the key with a CR in front of it in watch / unwatch (nun-db drops line breaks from key names:
    /// the same text must name the same key in every command)
    #[serde(default)]
    pub cr_spelling: bool,
    /// database d is created with the `newer` strategy (used only with ONE writer: its stale versioned writes are then
    /// the most recently issued changes, are accepted and stored, and have to be notified like every other write; with
    /// several writers which stale write is stored is C19's business)
    #[serde(default)]
    pub newer_db: bool,
}

fn w_strategy() -> impl Strategy<Value = W> {
    // text writes go to key a only, so that n stays an integer and every increment is applied
    let k = 0..2usize;
    prop_oneof![
        5 => Just(W::Set { k: 0 }),
        2 => Just(W::SetSame),
        2 => Just(W::SetSafeFresh { k: 0 }),
        1 => Just(W::SetSafeStale { k: 0 }),
        3 => select(vec![1, 2, 3]).prop_map(|n| W::Inc { n }),
        2 => k.clone().prop_map(|k| W::Remove { k }),
        1 => Just(W::RpSet { k: 0 }),
        1 => select(vec![1, 4]).prop_map(|n| W::RpInc { n }),
        1 => k.prop_map(|k| W::RpRemove { k }),
    ]
}

fn s_strategy() -> impl Strategy<Value = S> {
    let k = 0..2usize;
    prop_oneof![6 => k.clone().prop_map(|k| S::Watch { k }), 2 => k.prop_map(|k| S::Unwatch { k }), 1 => Just(S::UnwatchAll), 1 => Just(S::Disconnect), 1 => Just(S::UseOther), 1 => Just(S::UseBack), 1 => Just(S::Die)]
}

pub fn case_strategy() -> impl Strategy<Value = Case> {
    (
        prop::collection::vec(prop::collection::vec(w_strategy(), 1..4), 1..3),
        prop::collection::vec(prop::collection::vec(s_strategy(), 1..5), 1..3),
        prop::collection::vec(prop_oneof![3 => Just(0u16), 2 => any::<u16>()], 0..60),
    )
        .prop_map(|(writers, subs, schedule)| Case { writers, subs, schedule, cr_spelling: false, newer_db: false }).prop_flat_map(|c| (prop::bool::weighted(0.15), prop::bool::weighted(0.5)).prop_map(move |(cr, nw)| Case { cr_spelling: cr, newer_db: nw && c.writers.len() == 1, ..c.clone() }))
}

#[derive(Clone, Debug)]
struct Mutation {
    key: usize,
    /// Some(unique text) for set-like writes, None for increments / removes
    value: Option<String>,
    kind: &'static str, // "set" | "inc" | "remove"
    ok: bool,
    start: u64,
    end: u64,
}

#[derive(Clone, Debug)]
struct SubEvent {
    op: S,
    start: u64,
    end: u64,
    effective: bool,
    /// for a watch: what the key held the moment the command returned (read while this task still holds the baton, through
    /// the structures directly, without a yield point: nothing can commit in between)
    seen_at_ack: Option<String>,
}

struct SubResult {
    events: Vec<SubEvent>,
    lines: Vec<String>,
}

fn writer_line(w: &W, ci: usize, oi: usize, cur_ver: &dyn Fn(usize) -> i32) -> (String, Mutation) {
    let val = format!("w{}o{}", ci, oi);
    let m = |key: usize, value: Option<String>, kind: &'static str| Mutation { key, value, kind, ok: false, start: 0, end: 0 };
    match w {
        W::Set { k } => (format!("set {} {}", KEYS[*k], val), m(*k, Some(val.clone()), "set")),
        W::SetSame => ("set a same-text".to_string(), m(0, None, "same")),
        W::SetSafeFresh { k } => (format!("set-safe {} {} {}", KEYS[*k], cur_ver(*k) + 50, val), m(*k, Some(val.clone()), "set")),
        W::SetSafeStale { k } => (format!("set-safe {} 0 {}", KEYS[*k], val), m(*k, Some(val.clone()), "set")),
        W::Inc { n } => (format!("increment n {}", n), m(1, None, "inc")),
        W::Remove { k } => (format!("remove {}", KEYS[*k]), m(*k, None, "remove")),
        W::RpSet { k } => (format!("rp 7 replicate d {} -1 {}", KEYS[*k], val), m(*k, Some(val.clone()), "set")),
        W::RpInc { n } => (format!("rp 7 replicate-increment d n {}", n), m(1, None, "inc")),
        W::RpRemove { k } => (format!("rp 7 replicate-remove d {}", KEYS[*k]), m(*k, None, "remove")),
    }
}

enum TaskOut {
    Writer(Vec<Mutation>),
    /// the session is handed back so that its receiver is drained only after every task has finished
    Sub(SubResult, Session),
}

pub fn run_case(ctx: &Ctx, case: &Case) -> Result<Outcome, String> {
    let dir = ctx.fresh_dir();
    let mut node = Node::boot_single(&dir);
    let mut admin = Session::new();
    admin.auth(&node);
    admin.send(&node, if case.newer_db && case.writers.len() == 1 { "create-db d tok newer" } else { "create-db d tok" });
    admin.send(&node, "use-db d tok");
    // both keys exist with a version > 0 so that "set-safe k 0" is stale
    admin.send(&node, "set a init");
    admin.send(&node, "set a init2");
    admin.send(&node, "set n 99");
    admin.send(&node, "set n 100");
    admin.send(&node, "create-db e etok");
    node.pump();
    let mut tasks: Vec<Box<dyn FnOnce(&sched::TaskCtx) -> TaskOut + Send>> = vec![];
    for (ci, prog) in case.writers.iter().enumerate() {
        let prog = prog.clone();
        let dbs = node.dbs.clone();
        let uses_link = prog.iter().any(|w| matches!(w, W::RpSet { .. } | W::RpInc { .. } | W::RpRemove { .. }));
        let mut s = if uses_link { Session::link("127.0.0.1:3017") } else { Session::new() };
        s.send(&node, "use-db d tok");
        tasks.push(Box::new(move |t: &sched::TaskCtx| {
            let mut out = vec![];
            for (oi, w) in prog.iter().enumerate() {
                t.pause("cmd");
                let dbs2 = dbs.clone();
                let cur = move |k: usize| dbs2.map.read().unwrap().get("d").unwrap().map.read().unwrap().get(KEYS[k]).map(|v| v.version).unwrap_or(0);
                let (line, mut m) = writer_line(w, ci, oi, &cur);
                m.start = t.now();
                let r = nundb::process_request::process_request(&line, &dbs, &mut s.client);
                m.end = t.now();
                m.ok = !is_refusal(&r);
                s.drain();
                out.push(m);
            }
            TaskOut::Writer(out)
        }));
    }
    for prog in case.subs.iter() {
        let prog = prog.clone();
        let dbs = node.dbs.clone();
        let cr: &'static str = if case.cr_spelling { "\r" } else { "" };
        let mut s = Session::new();
        s.send(&node, "use-db d tok");
        tasks.push(Box::new(move |t: &sched::TaskCtx| {
            let mut events = vec![];
            let mut watching = [false, false];
            let mut gone = false;
            let mut in_d = true;
            for op in prog.iter() {
                if gone {
                    break;
                }
                // (watch and unwatch name keys of the selected database: while e is selected they are not sent)
                if let (false, S::Watch { .. } | S::Unwatch { .. }) = (in_d, op) {
                    continue;
                }
                if let (true, S::UseBack) | (false, S::UseOther) = (in_d, op) {
                    continue;
                }
                t.pause("cmd");
                let start = t.now();
                let mut seen: Option<String> = None;
                match op {
                    S::Watch { k } => {
                        // (a second watch of a key the session already watches changes nothing: still ONE notification per mutation)
                        nundb::process_request::process_request(&format!("watch {}{}", cr, KEYS[*k]), &dbs, &mut s.client);
                        if !watching[*k] {
                            seen = dbs.map.read().unwrap().get("d").and_then(|d| d.map.read().unwrap().get(KEYS[*k]).map(|v| v.value.clone()));
                        }
                    }
                    S::Unwatch { k } => {
                        nundb::process_request::process_request(&format!("unwatch {}{}", cr, KEYS[*k]), &dbs, &mut s.client);
                        watching[*k] = false;
                    }
                    S::UnwatchAll => {
                        nundb::process_request::process_request("unwatch-all", &dbs, &mut s.client);
                        watching = [false, false];
                    }
                    S::Disconnect => {
                        nundb::process_request::process_request("unwatch-all", &dbs, &mut s.client);
                        s.client.left(&dbs);
                        watching = [false, false];
                        gone = true;
                    }
                    S::UseOther => {
                        nundb::process_request::process_request("use-db e etok", &dbs, &mut s.client);
                        in_d = false;
                    }
                    S::UseBack => {
                        nundb::process_request::process_request("use-db d tok", &dbs, &mut s.client);
                        in_d = true;
                    }
                    S::Die => {
                        s.kill_receiver();
                        gone = true;
                    }
                }
                let end = t.now();
                let rewatch = matches!(op, S::Watch { k } if watching[*k]);
                if let S::Watch { k } = op {
                    watching[*k] = true;
                }
                if !rewatch {
                    events.push(SubEvent { op: op.clone(), start, end, effective: true, seen_at_ack: seen });
                }
            }
            TaskOut::Sub(SubResult { events, lines: vec![] }, s)
        }));
    }
    let nsubs = case.subs.len();
    let (results, info) = sched::run(tasks, &case.schedule, sched::lock_sites)?;
    node.pump();
    let mut muts: Vec<Mutation> = vec![];
    let mut subs: Vec<SubResult> = vec![];
    let mut fail: Option<(String, String)> = None;
    for r in results {
        match r {
            Ok(TaskOut::Writer(m)) => muts.extend(m),
            Ok(TaskOut::Sub(mut r, mut sess)) => {
                r.lines = sess.drain();
                subs.push(r);
            }
            Err(p) => fail = Some((format!("C03|client-panicked|{}", p.chars().take(40).collect::<String>()), p)),
        }
    }
    let tend = info.trace.len() as u64 + 10;
    let mut nontrivial = false;
    if fail.is_none() && subs.len() == nsubs {
        'subs: for (si, sub) in subs.iter().enumerate() {
            // (a subscriber whose connection died has no receiver to look at; it is there for what it does to the others)
            if sub.events.iter().any(|e| matches!(e.op, S::Die)) {
                continue;
            }
            // watch intervals per key: (ack_time, possible_from, unsub_start, unsub_end)
            for k in 0..2 {
                let mut intervals: Vec<(u64, u64, u64, u64)> = vec![];
                let mut open: Option<(u64, u64)> = None;
                for e in sub.events.iter() {
                    match &e.op {
                        S::Watch { k: wk } if *wk == k => open = Some((e.end, e.start)),
                        S::Unwatch { k: uk } if *uk == k => {
                            if let Some((ack, from)) = open.take() {
                                intervals.push((ack, from, e.start, e.end));
                            }
                        }
                        S::UnwatchAll | S::Disconnect => {
                            if let Some((ack, from)) = open.take() {
                                intervals.push((ack, from, e.start, e.end));
                            }
                        }
                        _ => {}
                    }
                }
                if let Some((ack, from)) = open.take() {
                    intervals.push((ack, from, tend, tend));
                }
                let strictly_inside = |m: &Mutation| intervals.iter().any(|(ack, _f, us, _ue)| m.start > *ack && m.end < *us);
                let possibly = |m: &Mutation| intervals.iter().any(|(_ack, from, _us, ue)| m.end >= *from && m.start <= *ue);
                let key = KEYS[k];
                // set-like writes (unique values)
                for m in muts.iter().filter(|m| m.key == k && m.kind == "set") {
                    let v = m.value.as_ref().unwrap();
                    let c1 = sub.lines.iter().filter(|l| **l == format!("changed {} {}\n", key, v)).count();
                    let c2 = sub.lines.iter().filter(|l| l.starts_with(&format!("changed-version {} ", key)) && l.ends_with(&format!(" {}\n", v))).count();
                    let ctxt = || format!("subscriber {} key {}: mutation {:?}; watch intervals (ack,from,unsub-start,unsub-end) {:?}; received {:?}; trace {:?}", si, key, m, intervals, sub.lines, info.trace);
                    if !m.ok {
                        if c1 + c2 > 0 {
                            fail = Some(("C03|notified-refused-write".into(), ctxt()));
                            break 'subs;
                        }
                        continue;
                    }
                    if strictly_inside(m) {
                        if c1 != 1 || c2 != 1 {
                            let other_active = sub_activity_overlaps(&subs, si, m, &intervals);
                            fail = Some((format!("C03|missed-or-duplicated-change|{}|{}", if c1 == 0 { "missed" } else { "duplicated" }, other_active), ctxt()));
                            break 'subs;
                        }
                    } else if !possibly(m) {
                        if c1 + c2 > 0 {
                            fail = Some((format!("C03|notified-outside-subscription|{}", if intervals.is_empty() { "never-watched" } else { "after-unsubscribe-or-before-watch" }), ctxt()));
                            break 'subs;
                        }
                    } else if c1 > 1 || c2 > 1 {
                        fail = Some(("C03|missed-or-duplicated-change|duplicated|overlapping".into(), ctxt()));
                        break 'subs;
                    }
                }
                // removes: counted
                let removed_lines = sub.lines.iter().filter(|l| **l == format!("removed {}\n", key)).count();
                let rm_inside = muts.iter().filter(|m| m.key == k && m.kind == "remove" && m.ok && strictly_inside(m)).count();
                let rm_possible = muts.iter().filter(|m| m.key == k && m.kind == "remove" && m.ok && possibly(m)).count();
                if removed_lines < rm_inside || removed_lines > rm_possible {
                    fail = Some((format!("C03|removed-notifications|{}", if removed_lines < rm_inside { "missed" } else { "too-many" }), format!("subscriber {} key {}: {} 'removed' lines, {} removes strictly inside a subscription, {} possibly; intervals {:?}; muts {:?}; lines {:?}; trace {:?}", si, key, removed_lines, rm_inside, rm_possible, intervals, muts, sub.lines, info.trace)));
                    break 'subs;
                }
                // writes of the constant text: counted
                if k == 0 {
                    let same_lines = sub.lines.iter().filter(|l| **l == "changed a same-text\n").count();
                    let same_inside = muts.iter().filter(|m| m.kind == "same" && m.ok && strictly_inside(m)).count();
                    let same_possible = muts.iter().filter(|m| m.kind == "same" && m.ok && possibly(m)).count();
                    if same_lines < same_inside || same_lines > same_possible {
                        fail = Some((format!("C03|same-text-notifications|{}", if same_lines < same_inside { "missed" } else { "too-many" }), format!("subscriber {}: {} 'changed a same-text' lines, {} such writes strictly inside a subscription, {} possibly; received {:?}; trace {:?}", si, same_lines, same_inside, same_possible, sub.lines, info.trace)));
                        break 'subs;
                    }
                }
                // increments: counted (their values are not unique across schedules)
                if k == 1 {
                    let inc_lines = sub.lines.iter().filter(|l| l.starts_with("changed n ") && l.trim_end().rsplit(' ').next().map(|x| x.parse::<i32>().is_ok()).unwrap_or(false)).count();
                    let inc_inside = muts.iter().filter(|m| m.kind == "inc" && m.ok && strictly_inside(m)).count();
                    let inc_possible = muts.iter().filter(|m| m.kind == "inc" && m.ok && possibly(m)).count();
                    if inc_lines < inc_inside || inc_lines > inc_possible {
                        fail = Some((format!("C03|increment-notifications|{}", if inc_lines < inc_inside { "missed" } else { "too-many" }), format!("subscriber {}: {} numeric 'changed n' lines, {} increments strictly inside a subscription, {} possibly; intervals {:?}; muts {:?}; lines {:?}", si, inc_lines, inc_inside, inc_possible, intervals, muts, sub.lines)));
                        break 'subs;
                    }
                }
                // currency: still subscribed at the end, key written only with set/set-safe
                let still = intervals.iter().any(|(_, _, us, _)| *us == tend);
                let only_sets = muts.iter().filter(|m| m.key == k && m.ok).all(|m| m.kind == "set");
                if still && only_sets {
                    // the value the key holds now was written once (values are unique). If it is not the value the key held
                    // when the last watch was acknowledged, it was committed after that acknowledgement, whatever the
                    // call intervals say: the subscriber must have been told
                    let last_watch = sub.events.iter().rev().find(|e| matches!(&e.op, S::Watch { k: wk } if *wk == k));
                    let cur = node.dump().get("d").and_then(|m| m.get(key)).map(|v| v.0.clone()).unwrap_or_default();
                    if let Some(SubEvent { seen_at_ack: Some(seen), .. }) = last_watch {
                        let written = muts.iter().any(|m| m.key == k && m.ok && m.value.as_deref() == Some(cur.as_str()));
                        let told = sub.lines.iter().any(|l| *l == format!("changed {} {}\n", key, cur) || (l.starts_with(&format!("changed-version {} ", key)) && l.ends_with(&format!(" {}\n", cur))));
                        if written && *seen != cur && !told {
                            fail = Some(("C03|subscriber-never-told-the-current-value".into(), format!("subscriber {} key {}: when its watch was acknowledged the key held {:?}; it now holds {:?} (committed afterwards) and the subscriber, still subscribed, was never sent it; received {:?}; trace {:?}", si, key, seen, cur, sub.lines, info.trace)));
                            break 'subs;
                        }
                    }
                }
                if still && only_sets {
                    let mut best: Option<(i32, Vec<String>)> = None;
                    for l in sub.lines.iter() {
                        if let Some(rest) = l.strip_prefix(&format!("changed-version {} ", key)) {
                            let mut it = rest.trim_end_matches('\n').splitn(2, ' ');
                            if let (Some(ver), Some(val)) = (it.next().and_then(|v| v.parse::<i32>().ok()), it.next()) {
                                match &mut best {
                                    Some((bv, vals)) if *bv == ver => vals.push(val.to_string()),
                                    Some((bv, _)) if *bv > ver => {}
                                    _ => best = Some((ver, vec![val.to_string()])),
                                }
                            }
                        }
                    }
                    if let Some((ver, vals)) = best {
                        let cur = node.dump().get("d").and_then(|m| m.get(key)).map(|v| v.0.clone()).unwrap_or_default();
                        // only judged when the subscriber saw the last write completely
                        let last_inside = muts.iter().filter(|m| m.key == k && m.ok).max_by_key(|m| m.end).map(|m| strictly_inside(m)).unwrap_or(false);
                        if last_inside && !vals.contains(&cur) {
                            fail = Some(("C03|highest-version-notification-not-current".into(), format!("subscriber {} key {}: highest version notified {} carries {:?}, current value {:?}; lines {:?}", si, key, ver, vals, cur, sub.lines)));
                            break 'subs;
                        }
                    }
                }
            }
        }
        // non-trivial: a subscription change of one client overlaps another client's unsubscribe, or two writers overlap on a watched key
        let unsub_windows: Vec<(usize, u64, u64)> = subs.iter().enumerate().flat_map(|(i, s)| s.events.iter().filter(|e| !matches!(e.op, S::Watch { .. })).map(move |e| (i, e.start, e.end))).collect();
        let sub_changes: Vec<(usize, u64, u64)> = subs.iter().enumerate().flat_map(|(i, s)| s.events.iter().map(move |e| (i, e.start, e.end))).collect();
        nontrivial = unsub_windows.iter().any(|(i, s, e)| sub_changes.iter().any(|(j, s2, e2)| i != j && s2 <= e && s <= e2));
        let watched_any = subs.iter().any(|s| s.events.iter().any(|e| matches!(e.op, S::Watch { .. })));
        if watched_any && muts.iter().any(|a| muts.iter().any(|b| !std::ptr::eq(a, b) && a.key == b.key && a.start <= b.end && b.start <= a.end && a.start != b.start)) {
            nontrivial = true;
        }
    }
    drop(node);
    ctx.drop_dir(&dir);
    let mut out = Outcome::ok(nontrivial && info.switches > 0);
    if nontrivial {
        out.classes.push("subscription-change-overlaps-unsubscribe-or-writers-overlap");
    }
    out.counters.push(("yield_points", info.yields));
    out.counters.push(("context_switches", info.switches));
    out.fail = fail;
    Ok(out)
}

/// was another subscriber changing its subscriptions while this mutation's subscriber interval was active?
fn sub_activity_overlaps(subs: &[SubResult], me: usize, m: &Mutation, intervals: &[(u64, u64, u64, u64)]) -> &'static str {
    let (ack, us) = intervals.iter().find(|(ack, _f, us, _ue)| m.start > *ack && m.end < *us).map(|x| (x.0, x.2)).unwrap_or((0, 0));
    for (i, s) in subs.iter().enumerate() {
        if i == me {
            continue;
        }
        for e in s.events.iter() {
            if e.end >= ack && e.start <= us.min(m.end) {
                return match e.op {
                    S::Watch { .. } => "while-another-client-watched",
                    _ => "while-another-client-unsubscribed",
                };
            }
        }
    }
    "no-other-subscriber-activity"
}

fn guard(ctx: &Ctx, c: &Case) -> Outcome {
    let r = run_case(ctx, c);
    match r {
        Ok(o) => o,
        Err(e) => {
            eprintln!("C03: scheduler watchdog: {}", e);
            std::process::exit(2);
        }
    }
}

/// one writer, two subscribers, one key: every schedule with at most two forced switches
fn bounded_family(len: usize) -> Vec<Case> {
    let sub_progs: Vec<Vec<S>> = vec![
        vec![S::Watch { k: 0 }, S::UnwatchAll],
        vec![S::Watch { k: 0 }, S::Unwatch { k: 0 }],
        vec![S::Watch { k: 0 }, S::Disconnect],
        vec![S::UnwatchAll],
        vec![S::Watch { k: 1 }, S::Disconnect],
    ];
    let writer_progs: Vec<Vec<W>> = vec![vec![W::Set { k: 0 }], vec![W::Set { k: 0 }, W::Remove { k: 0 }], vec![W::SetSafeFresh { k: 0 }, W::Set { k: 0 }]];
    let scheds = sched::bounded_schedules(len, 3);
    let mut out = vec![];
    for sp in sub_progs.iter() {
        for wp in writer_progs.iter() {
            for s in scheds.iter() {
                out.push(Case { writers: vec![wp.clone()], subs: vec![vec![S::Watch { k: 0 }], sp.clone()], schedule: s.clone(), cr_spelling: false, newer_db: false });
            }
        }
    }
    out
}

pub fn run(ctx: &Ctx, rep: &mut Report) {
    crate::interpose::virtual_clock(true);
    let n = ctx.amount(60_000, 600_000);
    explore(ctx, rep, "schedules", n, case_strategy(), |c| guard(ctx, c));
    if rep.failures.is_empty() {
        let len = if ctx.quick() { 12 } else { 24 };
        crate::report::enumerate(ctx, rep, "one-writer-two-subscribers-all-schedules-with-at-most-2-forced-switches", bounded_family(len).into_iter(), |c| guard(ctx, c));
    }
}

pub fn replay(ctx: &Ctx, _engine: &str, case: &J) -> Result<Option<(String, String)>, String> {
    crate::interpose::virtual_clock(true);
    replay_guarded::<Case>(ctx, case, |c| guard(ctx, c))
}
