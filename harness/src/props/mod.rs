use crate::report::{Ctx, Report};
use serde_json::Value as J;

pub mod c01;
pub mod c05;
pub mod c14;
pub mod c04;
pub mod c07;
pub mod c18;
pub mod c16;
pub mod c11;
pub mod c13;
pub mod c19;
pub mod c03;
pub mod c02;
pub mod c17;
pub mod c20;
pub mod c10;
pub mod c09;
pub mod c08;
pub mod c12;
pub mod c06;
pub mod c15;

pub fn run(ctx: &Ctx, rep: &mut Report) -> bool {
    crate::node::record_panic_locations();
    match ctx.property.as_str() {
        "C01" => c01::run(ctx, rep),
        "C05" => c05::run(ctx, rep),
        "C14" => c14::run(ctx, rep),
        "C04" => c04::run(ctx, rep),
        "C07" => c07::run(ctx, rep),
        "C18" => c18::run(ctx, rep),
        "C16" => c16::run(ctx, rep),
        "C11" => c11::run(ctx, rep),
        "C13" => c13::run(ctx, rep),
        "C19" => c19::run(ctx, rep),
        "C03" => c03::run(ctx, rep),
        "C02" => c02::run(ctx, rep),
        "C17" => c17::run(ctx, rep),
        "C20" => c20::run(ctx, rep),
        "C10" => c10::run(ctx, rep),
        "C09" => c09::run(ctx, rep),
        "C08" => c08::run(ctx, rep),
        "C12" => c12::run(ctx, rep),
        "C06" => c06::run(ctx, rep),
        "C15" => c15::run(ctx, rep),
        _ => return false,
    }
    true
}

pub fn replay(ctx: &Ctx, prop: &str, engine: &str, case: &J) -> Result<Option<(String, String)>, String> {
    crate::node::record_panic_locations();
    match prop {
        "C01" => c01::replay(ctx, engine, case),
        "C05" => c05::replay(ctx, engine, case),
        "C14" => c14::replay(ctx, engine, case),
        "C04" => c04::replay(ctx, engine, case),
        "C07" => c07::replay(ctx, engine, case),
        "C18" => c18::replay(ctx, engine, case),
        "C16" => c16::replay(ctx, engine, case),
        "C11" => c11::replay(ctx, engine, case),
        "C13" => c13::replay(ctx, engine, case),
        "C19" => c19::replay(ctx, engine, case),
        "C03" => c03::replay(ctx, engine, case),
        "C02" => c02::replay(ctx, engine, case),
        "C17" => c17::replay(ctx, engine, case),
        "C20" => c20::replay(ctx, engine, case),
        "C10" => c10::replay(ctx, engine, case),
        "C09" => c09::replay(ctx, engine, case),
        "C08" => c08::replay(ctx, engine, case),
        "C12" => c12::replay(ctx, engine, case),
        "C06" => c06::replay(ctx, engine, case),
        "C15" => c15::replay(ctx, engine, case),
        _ => Err(format!("unknown property {}", prop)),
    }
}

/// Harness self-test (interposition effective, node boots, ...). false => exit 2.
pub fn selftest() -> bool {
    let mut ok = true;
    if !crate::interpose::sleep_interposition_works() {
        eprintln!("selftest: sleep interposition NOT effective");
        ok = false;
    }
    if !crate::interpose::clock_interposition_works() {
        eprintln!("selftest: clock interposition NOT effective");
        ok = false;
    }
    ok
}
