//! C07 — elections end with exactly one primary, the oldest live node, and all nodes agree.
use crate::cluster::Cluster;
use crate::report::{enumerate, explore_with, replay_guarded, Ctx, Outcome, Report};
use nundb::bo::ClusterRole;
use proptest::prelude::*;
use serde::{Deserialize, Serialize};
use serde_json::Value as J;

#[derive(Clone, Debug, Serialize, Deserialize, PartialEq)]
pub enum Trig {
    Boot { i: usize },
    Kill { i: usize },
    /// `debug force-election` sent by an administrator to node i
    Force { i: usize },
    /// let the cluster become quiet before the next trigger (otherwise triggers happen at the same instant)
    Settle,
}

#[derive(Clone, Debug, Serialize, Deserialize)]
pub struct Case {
    pub n: usize,
    /// start order of the processes (sorted by this value, ties by index) = age order
    pub ages: Vec<u8>,
    /// whether the cluster becomes quiet after the start of node i before the next node starts (staggered start)
    pub settle_after_boot: Vec<bool>,
    pub trigs: Vec<Trig>,
    pub schedule: Vec<u16>,
}

pub fn case_strategy() -> impl Strategy<Value = Case> {
    (2..4usize).prop_flat_map(|n| {
        let trig = prop_oneof![
            3 => (0..n).prop_map(|i| Trig::Boot { i }),
            2 => (0..n).prop_map(|i| Trig::Kill { i }),
            2 => (0..n).prop_map(|i| Trig::Force { i }),
            4 => Just(Trig::Settle),
        ];
        (Just(n), prop::collection::vec(0..6u8, n), prop::collection::vec(prop::bool::weighted(0.85), n), prop::collection::vec(trig, 0..5), prop::collection::vec(prop_oneof![4 => Just(0u16), 1 => any::<u16>()], 0..80)).prop_map(|(n, ages, settle_after_boot, trigs, schedule)| Case { n, ages, settle_after_boot, trigs, schedule })
    })
}

const BUDGET: u64 = 400_000;

pub fn run_case(ctx: &Ctx, case: &Case) -> Outcome {
    let scratch = ctx.fresh_dir();
    // a process id is the wall-clock start time of the process: ids follow the order in which the nodes are
    // started (generated as a permutation through `ages`), a restarted node gets a new, larger one
    let mut order: Vec<usize> = (0..case.n).collect();
    order.sort_by_key(|i| (case.ages[*i], *i));
    let mut pids = vec![0u128; case.n];
    for (rank, i) in order.iter().enumerate() {
        pids[*i] = 1000 + 100 * rank as u128;
    }
    let mut next_pid: u128 = 5000;
    let mut c = Cluster::new(&scratch, case.n, &pids);
    let mut pos = 0usize;
    let sched = case.schedule.clone();
    let mut choose = move |n: usize| -> usize {
        let c = if pos < sched.len() { sched[pos] } else { 0 };
        pos += 1;
        if c == 0 { 0 } else { ((c - 1) as usize * n) >> 16 }
    };
    // the scenario: every node is started first (in index order, at the same instant unless a Settle follows), then the triggers
    let mut trigs: Vec<Trig> = vec![];
    for (rank, i) in order.iter().enumerate() {
        trigs.push(Trig::Boot { i: *i });
        if case.settle_after_boot.get(rank).cloned().unwrap_or(true) {
            trigs.push(Trig::Settle);
        }
    }
    trigs.extend(case.trigs.iter().cloned());
    trigs.push(Trig::Settle);
    let mut fail: Option<(String, String)> = None;
    let mut kinds: Vec<&'static str> = vec![];
    let mut simultaneous = 0;
    let mut since_settle = 0;
    for t in trigs.iter() {
        match t {
            Trig::Boot { i } => {
                if !c.alive(*i) {
                    if c.nodes[*i].pid == 0 {
                        c.nodes[*i].pid = pids[*i];
                    }
                    c.boot(*i);
                    kinds.push("boot");
                    since_settle += 1;
                }
            }
            Trig::Kill { i } => {
                if c.alive(*i) && (0..case.n).filter(|j| c.alive(*j)).count() > 1 {
                    let was_primary = c.role(*i) == Some(ClusterRole::Primary);
                    c.kill(*i);
                    // a restarted process is a new, younger process
                    c.nodes[*i].pid = next_pid;
                    next_pid += 100;
                    kinds.push(if was_primary { "kill-primary" } else { "kill-secondary" });
                    since_settle += 1;
                }
            }
            Trig::Force { i } => {
                if c.alive(*i) {
                    c.client(*i, vec![format!("auth {} {}", crate::node::USER, crate::node::PWD), "debug force-election".to_string()]);
                    kinds.push("force-election");
                    since_settle += 1;
                }
            }
            Trig::Settle => {
                if since_settle >= 2 {
                    simultaneous += 1;
                }
                since_settle = 0;
                if !c.run(&mut choose, BUDGET) {
                    fail = Some((format!("C07|no-termination|{}", if simultaneous > 0 { "triggers-at-the-same-instant" } else { "one-trigger-at-a-time" }), format!("the cluster did not become quiet within {} steps; trace tail: {:?}", BUDGET, c.trace_tail(40))));
                    break;
                }
            }
        }
        if fail.is_some() {
            break;
        }
    }
    if fail.is_none() && !c.panics.is_empty() {
        let what = if c.panics[0].contains("supervisor loop died") { "supervisor-loop-died".to_string() } else { c.panics[0].split(" at ").next().unwrap_or("").chars().skip(3).take(60).collect::<String>() };
        fail = Some((format!("C07|panic|{}|{}", what, if simultaneous > 0 { "triggers-at-the-same-instant" } else { "one-trigger-at-a-time" }), format!("{:?}; trace tail {:?}", c.panics, c.trace_tail(30))));
    }
    if fail.is_none() {
        let live: Vec<usize> = (0..case.n).filter(|i| c.alive(*i)).collect();
        let oldest = *live.iter().min_by_key(|i| c.nodes[**i].pid).unwrap();
        let primaries: Vec<usize> = live.iter().cloned().filter(|i| c.role(*i) == Some(ClusterRole::Primary)).collect();
        let describe = |c: &Cluster| -> String {
            live.iter().map(|i| format!("n{}(pid {}): role {} sees {:?}", i, c.nodes[*i].pid, c.role(*i).map(|r| r.to_string()).unwrap_or_default(), c.members(*i))).collect::<Vec<_>>().join("; ")
        };
        let mut ks = kinds.clone();
        ks.sort();
        ks.dedup();
        let _ = ks;
        let scenario = if simultaneous > 0 { "triggers-at-the-same-instant" } else { "one-trigger-at-a-time" }.to_string();
        if primaries.len() != 1 {
            fail = Some((format!("C07|{}-primaries|{}", primaries.len(), scenario), format!("{} live nodes, primaries {:?}: {}; events {:?}", live.len(), primaries, describe(&c), c.election_events)));
        } else if primaries[0] != oldest {
            fail = Some((format!("C07|primary-is-not-the-oldest|{}", scenario), format!("primary n{} but the longest-running live node is n{}: {}; events {:?}", primaries[0], oldest, describe(&c), c.election_events)));
        } else {
            for i in live.iter() {
                if *i != primaries[0] && c.role(*i) != Some(ClusterRole::Secoundary) {
                    fail = Some((format!("C07|non-primary-is-not-secondary|{}", scenario), describe(&c)));
                    break;
                }
                let view = c.members(*i);
                let seen: Vec<&String> = view.iter().filter(|(_, r)| r == "Primary").map(|(n, _)| n).collect();
                if seen.len() != 1 || *seen[0] != c.nodes[primaries[0]].addr {
                    fail = Some((format!("C07|cluster-state-disagrees|{}", scenario), format!("n{} names {:?} as primary, the primary is n{} ({}): {}", i, seen, primaries[0], c.nodes[primaries[0]].addr, describe(&c))));
                    break;
                }
            }
        }
    }
    // with triggers at the same instant every wrong outcome (two primaries, wrong primary, disagreeing views)
    // is one listed root cause: fold the kinds; one-trigger-at-a-time scenarios keep the exact kind
    if let Some((sig, d)) = fail.take() {
        let folded = if sig.ends_with("|triggers-at-the-same-instant") && !sig.starts_with("C07|panic") && !sig.starts_with("C07|no-termination") {
            ("C07|wrong-roles-or-views|triggers-at-the-same-instant".to_string(), format!("[{}] {}", sig, d))
        } else {
            (sig, d)
        };
        fail = Some(folded);
    }
    let nontrivial = c.overlapping_candidates > 0 || c.set_primary_to_primary > 0;
    let (oc, sp, steps, ep, vms) = (c.overlapping_candidates, c.set_primary_to_primary, c.steps, c.early_polls, c.now_ns / 1_000_000);
    if fail.is_some() && std::env::var("NV_TRACE").is_ok() {
        for l in c.trace.iter() {
            eprintln!("  {}", l);
        }
    }
    drop(c);
    ctx.drop_dir(&scratch);
    let mut out = Outcome::ok(nontrivial);
    if oc > 0 {
        out.classes.push("overlapping-candidates");
    }
    if sp > 0 {
        out.classes.push("set-primary-reaches-a-primary");
    }
    if simultaneous > 0 {
        out.classes.push("simultaneous-triggers");
    }
    out.counters.push(("scheduler_steps", steps));
    out.counters.push(("early_polls", ep as u64));
    out.counters.push(("virtual_ms", vms));
    out.fail = fail;
    out
}

fn fixed() -> Vec<Case> {
    use Trig::*;
    let mut v = vec![];
    for n in [2usize, 3] {
        let staggered: Vec<Trig> = vec![];
        // all started at the same instant
        v.push(Case { n, ages: vec![0, 1, 2][..n].to_vec(), settle_after_boot: vec![false; n], trigs: staggered.clone(), schedule: vec![] });
        v.push(Case { n, ages: vec![2, 1, 0][..n].to_vec(), settle_after_boot: vec![true; n], trigs: vec![], schedule: vec![] });
        // primary dies
        v.push(Case { n, ages: vec![0, 1, 2][..n].to_vec(), settle_after_boot: vec![true; n], trigs: vec![Settle, Kill { i: 0 }], schedule: vec![] });
        // forced election on each node
        for i in 0..n {
            v.push(Case { n, ages: vec![0, 1, 2][..n].to_vec(), settle_after_boot: vec![true; n], trigs: vec![Settle, Force { i }], schedule: vec![] });
        }
        // primary dies and comes back
        v.push(Case { n, ages: vec![0, 1, 2][..n].to_vec(), settle_after_boot: vec![true; n], trigs: vec![Settle, Kill { i: 0 }, Settle, Boot { i: 0 }], schedule: vec![] });
    }
    v
}

// ------------------------------------------------------------------ the primary's link dies, over the real TCP front end
// The cluster simulator restates the loop of the TCP handler; what the REAL handler does when the connection of the
// primary ends (cleanly, with a reset while answers are unread, in the middle of a line) is exercised here: a node
// that has been told its primary over a TCP connection must hold an election when that connection ends and, alone,
// end up primary itself. Real threads and real time: the verdict is "no primary after 40 s" (an election alone takes
// about one second), so a slow machine cannot fail it.

#[derive(Clone, Debug, Serialize, Deserialize, PartialEq)]
pub enum LinkEnd {
    CleanClose,
    /// a replicated write is sent and the socket closed without reading the acknowledgement and the answer
    ResetWithUnreadAnswers,
    HalfLineThenClose,
}

#[derive(Clone, Debug, Serialize, Deserialize)]
pub struct TcpCase {
    pub ends: Vec<LinkEnd>,
}

pub fn run_tcp_case(ctx: &Ctx, case: &TcpCase) -> Outcome {
    use std::io::{Read, Write};
    nundb::verif::set_link_handler(None);
    let srv = crate::props::c10::TServer::start(ctx);
    // the "primary": a listener that answers ok to whatever the node sends it over its own link
    let listener = std::net::TcpListener::bind("127.0.0.1:0").expect("bind");
    let pport = listener.local_addr().unwrap().port();
    std::thread::spawn(move || {
        for conn in listener.incoming() {
            if let Ok(mut c) = conn {
                std::thread::spawn(move || {
                    let mut buf = [0u8; 4096];
                    while let Ok(n) = c.read(&mut buf) {
                        if n == 0 {
                            break;
                        }
                        for _ in buf[..n].iter().filter(|b| **b == b'\n') {
                            let _ = c.write_all(b"ok \n");
                        }
                    }
                });
            }
        }
    });
    let pname = format!("127.0.0.1:{}", pport);
    let mut fail = None;
    for (i, end) in case.ends.iter().enumerate() {
        // the node has no primary yet (as in its first second): the primary connects and says who it is
        srv.node.dbs.node_state.swap(ClusterRole::Secoundary as usize, std::sync::atomic::Ordering::SeqCst);
        let hello = format!("auth {} {}\nset-primary {}\n", crate::node::USER, crate::node::PWD, pname);
        let mut s = match std::net::TcpStream::connect(("127.0.0.1", srv.tcp)) {
            Ok(s) => s,
            Err(e) => {
                fail = Some(("C07|real-tcp|harness".to_string(), format!("connect: {}", e)));
                break;
            }
        };
        let _ = s.set_read_timeout(Some(std::time::Duration::from_millis(3000)));
        let _ = s.write_all(hello.as_bytes());
        let mut got = String::new();
        let mut buf = [0u8; 1024];
        while got.matches("ok").count() < 1 {
            match s.read(&mut buf) {
                Ok(n) if n > 0 => got.push_str(&String::from_utf8_lossy(&buf[..n])),
                _ => break,
            }
        }
        crate::transport::real_sleep(std::time::Duration::from_millis(200));
        if srv.node.dbs.get_role() == ClusterRole::Primary {
            fail = Some(("C07|real-tcp|harness".to_string(), format!("round {}: the node did not take {} as its primary: {:?}", i, pname, got)));
            break;
        }
        match end {
            LinkEnd::CleanClose => {
                let _ = s.shutdown(std::net::Shutdown::Both);
            }
            LinkEnd::ResetWithUnreadAnswers => {
                let _ = s.write_all(b"rp 5 replicate probe k -1 v\nrp 6 replicate probe k -1 w\n");
                crate::transport::real_sleep(std::time::Duration::from_millis(30));
            }
            LinkEnd::HalfLineThenClose => {
                let _ = s.write_all(b"rp 7 replicate probe k");
            }
        }
        drop(s);
        let t0 = std::time::Instant::now();
        let mut ok = false;
        while t0.elapsed() < std::time::Duration::from_secs(40) {
            if srv.node.dbs.get_role() == ClusterRole::Primary {
                ok = true;
                break;
            }
            crate::transport::real_sleep(std::time::Duration::from_millis(50));
        }
        if !ok {
            fail = Some((format!("C07|real-tcp|no-primary-after-the-primary-link-ended|{:?}", end), format!("round {}: 40 s after the connection of the primary ended ({:?}) the only live node is still role {} and names a dead primary", i, end, srv.node.dbs.get_role() as usize)));
            break;
        }
    }
    let mut out = Outcome::ok(true);
    out.classes.push("primary-link-ends-over-real-tcp");
    out.fail = fail;
    out
}

pub fn run(ctx: &Ctx, rep: &mut Report) {
    enumerate(ctx, rep, "fixed-scenarios", fixed().into_iter(), |c| run_case(ctx, c));
    if rep.failures.is_empty() {
        let n = ctx.amount(2400, 40_000);
        explore_with(ctx, rep, "scenarios", n, 150, case_strategy(), |c| run_case(ctx, c));
    }
    // (last: it switches the process to real threads and real time)
    if rep.failures.is_empty() {
        use LinkEnd::*;
        let cases = vec![TcpCase { ends: vec![CleanClose, ResetWithUnreadAnswers] }, TcpCase { ends: vec![ResetWithUnreadAnswers, HalfLineThenClose, CleanClose] }, TcpCase { ends: vec![HalfLineThenClose, ResetWithUnreadAnswers, ResetWithUnreadAnswers] }];
        enumerate(ctx, rep, "primary-link-ends-over-real-tcp", cases.into_iter(), |c| run_tcp_case(ctx, c));
    }
}

pub fn replay(ctx: &Ctx, _engine: &str, case: &J) -> Result<Option<(String, String)>, String> {
    if _engine == "primary-link-ends-over-real-tcp" {
        return replay_guarded::<TcpCase>(ctx, case, |c| run_tcp_case(ctx, c));
    }
    replay_guarded::<Case>(ctx, case, |c| run_case(ctx, c))
}
