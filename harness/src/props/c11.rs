//! C11 — a crash during a snapshot never damages previously persisted data (every mutating syscall is a crash point).
use crate::crash;
use crate::node::{probe_boot, Node, Session};
use crate::props::c06::{image_of, DbImage};
use crate::report::{enumerate, explore_with, replay_guarded, Ctx, Outcome, Report};
use proptest::prelude::*;
use proptest::sample::select;
use serde::{Deserialize, Serialize};
use serde_json::Value as J;
use std::panic::{catch_unwind, AssertUnwindSafe};

#[derive(Clone, Debug, Serialize, Deserialize, PartialEq)]
pub enum Ch {
    New { key: String, len: usize },
    Update { key: String, len: usize },
    Remove { key: String },
    Inc { key: String },
}

#[derive(Clone, Debug, Serialize, Deserialize)]
pub struct Case {
    /// (key, value length) persisted by the completed snapshot
    pub before: Vec<(String, usize)>,
    pub reclaim_before: bool,
    pub changes: Vec<Ch>,
    /// the interrupted snapshot
    pub reclaim: bool,
    /// 0 = only database d is queued; 1 = the neighbour database e is queued for a RECLAIMING snapshot before d's
    /// request, 2 = after it (both are stored by the same declutter step, the queue is a stack)
    #[serde(default)]
    pub neighbour: u8,
}

fn val(key: &str, len: usize, gen: u32) -> String {
    // recognisable content: a value that was never stored cannot be mistaken for one that was
    let unit = format!("<{}#{}>", key, gen);
    let mut s = String::new();
    while s.len() < len {
        s.push_str(&unit);
    }
    s.truncate(len.max(1));
    s
}

fn key_pool() -> Vec<String> {
    let mut v: Vec<String> = (0..12).map(|i| format!("k{}", i)).collect();
    v.push("ké".to_string());
    v.push("num".to_string());
    // key records longer than the 250-byte write buffer, and several records that share one flush: a kill between two
    // flushes leaves a record that is only partly on disk
    v.push("L".repeat(300));
    for i in 0..4 {
        v.push(format!("customer-number-{}-{}", i, "k".repeat(40)));
    }
    v
}

pub fn case_strategy() -> impl Strategy<Value = Case> {
    let lens = select(vec![1usize, 8, 40, 120, 260, 600]);
    let key = select(key_pool());
    let before = prop::collection::vec((key.clone(), lens.clone()), 1..10);
    let ch = prop_oneof![
        3 => (key.clone(), lens.clone()).prop_map(|(key, len)| Ch::New { key, len }),
        3 => (key.clone(), lens.clone()).prop_map(|(key, len)| Ch::Update { key, len }),
        2 => key.clone().prop_map(|key| Ch::Remove { key }),
        1 => Just(Ch::Inc { key: "num".to_string() }),
    ];
    (before, any::<bool>(), prop::collection::vec(ch, 1..8), any::<bool>()).prop_map(|(before, reclaim_before, changes, reclaim)| Case { before, reclaim_before, changes, reclaim, neighbour: 0 })
        .prop_flat_map(|c| prop_oneof![3 => Just(0u8), 1 => Just(1u8), 1 => Just(2u8)].prop_map(move |n| Case { neighbour: n, ..c.clone() }))
}

/// the fixed family of before/after datasets
pub fn fixed_family() -> Vec<Case> {
    let mut out = vec![];
    let small: Vec<(String, usize)> = vec![("k0".into(), 8), ("k1".into(), 8), ("k2".into(), 8)];
    let many: Vec<(String, usize)> = (0..12).map(|i| (format!("k{}", i), if i % 3 == 0 { 300 } else { 20 })).collect();
    let big: Vec<(String, usize)> = vec![("k0".into(), 600), ("k1".into(), 260), ("num".into(), 1)];
    let change_sets: Vec<Vec<Ch>> = vec![
        vec![Ch::New { key: "k9".into(), len: 8 }],
        vec![Ch::New { key: "k9".into(), len: 600 }, Ch::New { key: "k10".into(), len: 8 }],
        vec![Ch::Update { key: "k0".into(), len: 8 }],
        vec![Ch::Update { key: "k0".into(), len: 600 }, Ch::Update { key: "k1".into(), len: 1 }],
        vec![Ch::Remove { key: "k1".into() }],
        vec![Ch::Remove { key: "k0".into() }, Ch::Remove { key: "k1".into() }],
        vec![Ch::New { key: "k9".into(), len: 40 }, Ch::Update { key: "k0".into(), len: 300 }, Ch::Remove { key: "k1".into() }],
        vec![Ch::Inc { key: "num".into() }, Ch::Update { key: "k2".into(), len: 120 }],
        vec![Ch::Remove { key: "k2".into() }, Ch::New { key: "k2".into(), len: 40 }],
        vec![Ch::New { key: "L".repeat(300), len: 300 }],
        (0..6).map(|i| Ch::New { key: format!("customer-number-{}-{}", i, "k".repeat(40)), len: 300 }).collect(),
    ];
    for before in [small, many, big] {
        for reclaim_before in [false, true] {
            for changes in change_sets.iter() {
                for reclaim in [false, true] {
                    out.push(Case { before: before.clone(), reclaim_before, changes: changes.clone(), reclaim, neighbour: 0 });
                }
            }
        }
    }
    // the neighbour's reclaiming snapshot queued in the same declutter step, before and after d's incremental request
    let small: Vec<(String, usize)> = vec![("k0".into(), 8), ("k1".into(), 8), ("k2".into(), 8)];
    for neighbour in [1u8, 2] {
        for changes in change_sets.iter().take(5) {
            out.push(Case { before: small.clone(), reclaim_before: false, changes: changes.clone(), reclaim: false, neighbour });
        }
    }
    out
}

fn pair_ok(loaded: Option<&(String, i32)>, before: Option<&(String, i32)>, after: Option<&(String, i32)>) -> bool {
    loaded == before || loaded == after
}

pub fn run_case(ctx: &Ctx, case: &Case) -> Outcome {
    let dir = ctx.fresh_dir();
    let root = format!("{}-images", dir);
    let mut node = Node::boot_single(&dir);
    let mut a = Session::new();
    a.auth(&node);
    // a neighbour database with a completed snapshot that the interrupted snapshot does not touch
    a.send(&node, "create-db e etok newer");
    a.send(&node, "use-db e etok");
    a.send(&node, "set other untouched");
    a.send(&node, "snapshot false");
    a.send(&node, "create-db d dtok arbiter");
    a.send(&node, "use-db d dtok");
    for (k, len) in case.before.iter() {
        if k == "num" {
            a.send(&node, "set num 7");
        } else {
            a.send(&node, &format!("set {} {}", k, val(k, *len, 0)));
        }
    }
    a.send(&node, &format!("snapshot {}", case.reclaim_before));
    node.pump();
    node.snapshot_tick();
    let before: DbImage = image_of(&node, "d").unwrap();
    let e_before: DbImage = image_of(&node, "e").unwrap();
    for (i, ch) in case.changes.iter().enumerate() {
        match ch {
            Ch::New { key, len } | Ch::Update { key, len } => {
                if key == "num" {
                    a.send(&node, &format!("set num {}", 100 + i));
                } else {
                    a.send(&node, &format!("set {} {}", key, val(key, *len, i as u32 + 1)));
                }
            }
            Ch::Remove { key } => {
                a.send(&node, &format!("remove {}", key));
            }
            Ch::Inc { key } => {
                a.send(&node, &format!("increment {} 1", key));
            }
        }
    }
    if case.neighbour == 1 {
        a.send(&node, "use-db e etok");
        a.send(&node, "snapshot true");
        a.send(&node, "use-db d dtok");
    }
    a.send(&node, &format!("snapshot {}", case.reclaim));
    if case.neighbour == 2 {
        a.send(&node, "use-db e etok");
        a.send(&node, "snapshot true");
        a.send(&node, "use-db d dtok");
    }
    node.pump();
    let after: DbImage = image_of(&node, "d").unwrap();
    let (res, images) = crash::record(&dir, &root, 4000, || catch_unwind(AssertUnwindSafe(|| node.snapshot_tick())));
    let mut out = Outcome::ok(images.len() >= 3);
    out.counters.push(("crash_images", images.len() as u64));
    if case.reclaim {
        out.classes.push("interrupted-snapshot-reclaims");
    } else {
        out.classes.push("interrupted-snapshot-incremental");
    }
    drop(a);
    drop(node);
    let mut fail: Option<(String, String)> = None;
    if let Err(e) = res {
        fail = Some(("C11|snapshot-panicked".into(), crate::node::panic_text(e)));
    }
    let mut all: Vec<(String, String, usize)> = images.iter().map(|i| (i.dir.clone(), i.label.clone(), i.index)).collect();
    all.push((dir.clone(), "end (snapshot complete)".to_string(), images.len()));
    let total = all.len();
    let mut boots = 0u64;
    let mut known_hits: std::collections::BTreeMap<String, u64> = std::collections::BTreeMap::new();
    for (img_dir, label, idx) in all {
        if fail.is_some() {
            break;
        }
        let cls = crash::label_class(&label);
        let mode = if case.reclaim { "reclaim" } else { "incremental" };
        let at = format!("crash image {}/{} taken before `{}`", idx, total - 1, label);
        let verdict: Option<(String, String)> = (|| {
            if let Err(e) = probe_boot(&img_dir) {
                return Some((format!("C11|boot-fails|{}|before-{}", mode, cls), format!("{}: {}", at, e)));
            }
            let n = Node::boot_single(&img_dir);
            boots += 1;
            match image_of(&n, "e") {
                Some(e) if e == e_before => {}
                // (when the neighbour itself is being stored by a reclaiming snapshot in this step, its damage is the recorded
                // reclaim-window finding, whatever d's snapshot is)
                other if case.neighbour != 0 => return Some((format!("C11|{}|reclaim-of-the-neighbour|before-{}", if other.is_none() { "database-missing" } else { "keys-lost-or-changed" }, cls), format!("{}: database e (reclaiming snapshot in the same step) was {:?}, loaded {:?}", at, e_before, other))),
                other => return Some((format!("C11|neighbour-database-changed|{}|before-{}", mode, cls), format!("{}: database e was {:?}, loaded {:?}", at, e_before, other))),
            }
            let loaded = match image_of(&n, "d") {
                Some(l) => l,
                None => return Some((format!("C11|database-missing|{}|before-{}", mode, cls), format!("{}: database d (completed snapshot earlier) does not load", at))),
            };
            if loaded.id != before.id || loaded.strategy != before.strategy {
                return Some((format!("C11|metadata-changed|{}|before-{}", mode, cls), format!("{}: id/strategy {}/{} -> {}/{}", at, before.id, before.strategy, loaded.id, loaded.strategy)));
            }
            let mut keys: Vec<&String> = before.keys.keys().chain(after.keys.keys()).chain(loaded.keys.keys()).collect();
            keys.sort();
            keys.dedup();
            for k in keys {
                let (b, af, l) = (before.keys.get(k), after.keys.get(k), loaded.keys.get(k));
                if !pair_ok(l, b, af) {
                    let untouched = b == af;
                    let kind = if b.is_none() && af.is_none() {
                        // (a key record that is only partly on disk: its length field arrived, its name did not)
                        if !k.is_empty() && k.chars().all(|c| c == '\0') { "key-of-nul-bytes-appears" } else { "key-never-stored-appears" }
                    } else if l.is_none() {
                        if untouched { "untouched-key-lost" } else { "persisted-key-lost" }
                    } else if untouched {
                        "untouched-key-changed"
                    } else {
                        // which half of the pair is wrong? (the write protocol has two known windows: a key record updated
                        // in place with two syscalls, version first; and values that sit in the 250-byte writer buffer
                        // while their key record is already on disk. A value of buffer size or more is written through
                        // before its key is touched: it must never be missing.)
                        let lv = l.map(|x| &x.0);
                        if lv.is_some() && lv == b.map(|x| &x.0) {
                            "old-value-under-new-version"
                        } else if lv.is_some() && lv == af.map(|x| &x.0) {
                            "new-value-under-old-version"
                        } else if b.is_none() && af.map(|x| x.0.len()).unwrap_or(0) >= 250 {
                            // a key that is new to the disk: its value was written through before its record was appended, so
                            // a wrong value can only come from the record itself (name on disk, version and address not yet)
                            "new-key-record-partly-on-disk"
                        } else if af.map(|x| x.0.len()).unwrap_or(0) >= 250 {
                            "written-through-value-not-on-disk"
                        } else {
                            "buffered-value-not-on-disk"
                        }
                    };
                    let sh = |x: Option<&(String, i32)>| x.map(|(v, ver)| format!("{:?}@{}", if v.len() > 30 { format!("{}…({}B)", &v[..v.char_indices().nth(20).map(|c| c.0).unwrap_or(v.len())], v.len()) } else { v.clone() }, ver));
                    return Some((format!("C11|{}|{}|before-{}", kind, mode, cls), format!("{}: key {:?} before={:?} being-written={:?} loaded={:?}", at, k, sh(b), sh(af), sh(l))));
                }
            }
            None
        })();
        // signatures: the order in which keys reach the disk follows the implementation's HashMap
        // iteration order (random per process), so the syscall position and the exact kind of damage of
        // one root cause are not stable: fold them
        let verdict = verdict.map(|(sig, detail)| {
            let parts: Vec<&str> = sig.split('|').collect();
            let kind = parts.get(1).cloned().unwrap_or("");
            let folded = if parts.get(2).cloned() == Some("reclaim-of-the-neighbour") {
                if kind == "database-missing" { "C11|reclaim|database-missing".to_string() } else { "C11|reclaim|keys-lost-or-changed".to_string() }
            } else if case.reclaim {
                match kind {
                    "boot-fails" | "database-missing" | "neighbour-database-changed" | "metadata-changed" => format!("C11|reclaim|{}", kind),
                    _ => "C11|reclaim|keys-lost-or-changed".to_string(),
                }
            } else {
                match kind {
                    "boot-fails" | "database-missing" | "neighbour-database-changed" | "metadata-changed" => format!("C11|incremental|{}|{}", kind, parts.get(3).cloned().unwrap_or("")),
                    k => format!("C11|incremental|{}", k),
                }
            };
            (folded, format!("[{}] {}", sig, detail))
        });
        if let Some((sig, detail)) = verdict {
            if ctx.is_known(&sig) {
                // a listed finding: this image is excluded (and counted), the remaining images are still judged
                *known_hits.entry(sig).or_insert(0) += 1;
            } else {
                fail = Some((sig, detail));
            }
        }
    }
    out.counters.push(("image_boots", boots));
    out.known_image_hits = known_hits;
    let _ = std::fs::remove_dir_all(&root);
    ctx.drop_dir(&dir);
    out.fail = fail;
    out
}

pub fn run(ctx: &Ctx, rep: &mut Report) {
    crate::interpose::virtual_clock(true);
    enumerate(ctx, rep, "fixed-family", fixed_family().into_iter(), |c| run_case(ctx, c));
    if rep.failures.is_empty() {
        let n = ctx.amount(400, 6000);
        explore_with(ctx, rep, "generated-pairs", n, 300, case_strategy(), |c| run_case(ctx, c));
    }
}

pub fn replay(ctx: &Ctx, _engine: &str, case: &J) -> Result<Option<(String, String)>, String> {
    crate::interpose::virtual_clock(true);
    replay_guarded::<Case>(ctx, case, |c| run_case(ctx, c))
}
