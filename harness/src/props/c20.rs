//! C20 — HTTP replies line up, entry by entry, with the commands that caused them (real HTTP server).
use crate::node::{is_refusal, Node, Session};
use crate::report::{enumerate, explore, replay_guarded, Ctx, Outcome, Report};
use crate::transport;
use nundb::bo::Response;
use proptest::prelude::*;
use proptest::sample::select;
use serde::{Deserialize, Serialize};
use serde_json::Value as J;
use std::cell::{Cell, RefCell};
use std::collections::BTreeMap;

/// command templates; {DB} = the case's database, {NEW} = a database name the case may create
pub fn templates() -> Vec<&'static str> {
    vec![
        "auth admin-user admin-pwd",
        "auth admin-user wrong",
        "use-db {DB} tok",
        "use-db {DB} wrong",
        "use-db {DB} bob bobtok",
        "use-db {DB} bob wrong",
        "use-db {DB} ghost wrong",
        "get a",
        "get zz",
        "get-safe a",
        "set a 5",
        "set b two words",
        "set-safe a 50 fresh",
        "set-safe a 0 stale",
        "remove a",
        "remove zz",
        "increment n 2",
        "increment a",
        "increment txt 1",
        "keys a*",
        "keys ",
        "create-db {NEW} ntok",
        "get $$token",
        "set $$secret x",
        // commands that make the session a subscriber: what they push is part of the entry of the command that caused it,
        // and nothing of it may be left when the request has ended
        "watch a",
        "watch n",
        "unwatch a",
        "unwatch-all",
        "arbiter",
        "use-db {DB}b tok",
    ]
}

#[derive(Clone, Debug, Serialize, Deserialize)]
pub struct Case {
    pub cmds: Vec<String>,
    /// decorations: per command, what follows it: 0 = ";", 1 = " ; ", 2 = ";;", 3 = "; ;"
    pub seps: Vec<u8>,
    pub trailing: bool,
    pub leading_blank: bool,
}

pub fn case_strategy() -> impl Strategy<Value = Case> {
    (prop::collection::vec((select(templates()), 0..4u8), 1..9), any::<bool>(), any::<bool>()).prop_map(|(v, trailing, leading_blank)| Case {
        cmds: v.iter().map(|(c, _)| c.to_string()).collect(),
        seps: v.iter().map(|(_, s)| *s).collect(),
        trailing,
        leading_blank,
    })
}

pub struct Server {
    pub node: Node,
    pub port: u16,
    pub admin: RefCell<Session>,
    pub counter: Cell<u64>,
}

pub fn start_server(ctx: &Ctx) -> Server {
    start_server_named(ctx, "default")
}

pub fn start_server_named(ctx: &Ctx, name: &str) -> Server {
    crate::interpose::virtual_clock(true);
    let dir = ctx.scratch.join(name).to_str().unwrap().to_string();
    let mut node = Node::boot_single(&dir);
    transport::run_services_in_background(&mut node);
    let port = transport::start_http(node.dbs.clone());
    let mut admin = Session::new();
    admin.auth(&node);
    Server { node, port, admin: RefCell::new(admin), counter: Cell::new(0) }
}

/// senders left in the watcher lists of a database, and whether it still counts an arbiter as connected
fn subscriptions_left(node: &Node, db: &str) -> (usize, bool) {
    let map = node.dbs.map.read().unwrap();
    match map.get(db) {
        Some(d) => (d.watchers.map.read().unwrap().values().map(|v| v.len()).sum(), d.has_arbiter_connected()),
        None => (0, false),
    }
}

fn render(t: &str, db: &str, new: &str) -> String {
    t.replace("{DB}", db).replace("{NEW}", new)
}

fn body_of(case: &Case, db: &str, new: &str) -> String {
    let mut b = String::new();
    if case.leading_blank {
        b.push_str(" ;");
    }
    let n = case.cmds.len();
    for (i, c) in case.cmds.iter().enumerate() {
        b.push_str(&render(c, db, new));
        let last = i + 1 == n;
        if last && !case.trailing {
            break;
        }
        b.push_str(match case.seps[i] {
            0 => ";",
            1 => " ; ",
            2 => ";;",
            _ => "; ;",
        });
    }
    b
}

fn prepare_db(srv: &Server, db: &str) {
    // a session of its own that disconnects afterwards, so it does not count as a connection of the database
    let mut a = Session::new();
    a.auth(&srv.node);
    a.send(&srv.node, &format!("create-db {} tok", db));
    a.send(&srv.node, &format!("use-db {} tok", db));
    a.send(&srv.node, "set a 1");
    a.send(&srv.node, "set txt hello");
    a.send(&srv.node, "create-user bob bobtok");
    a.send(&srv.node, "set-permissions bob r a*");
    let _ = a.disconnect(&srv.node);
}

fn db_dump(node: &Node, db: &str) -> BTreeMap<String, (String, i32, bool)> {
    let mut d = node.dump_db(db).unwrap_or_default();
    d.remove("$connections");
    d
}

fn classify(line: &str) -> &'static str {
    let w = line.split(' ').next().unwrap_or("");
    match w {
        "auth" => "auth",
        "use-db" => "use-db",
        "get" | "get-safe" => "read",
        "set" | "set-safe" | "remove" | "increment" => "write",
        "keys" => "keys",
        "create-db" => "create-db",
        _ => "other",
    }
}

pub fn run_case(srv: &Server, case: &Case) -> Outcome {
    let n = srv.counter.get();
    srv.counter.set(n + 1);
    let pid = std::process::id();
    let (db_http, db_twin) = (format!("h{}x{}", pid, n), format!("t{}x{}", pid, n));
    let (new_http, new_twin) = (format!("nh{}x{}", pid, n), format!("nt{}x{}", pid, n));
    prepare_db(srv, &db_http);
    prepare_db(srv, &db_twin);
    prepare_db(srv, &format!("{}b", db_http));
    prepare_db(srv, &format!("{}b", db_twin));

    // reference: each command alone, in process, draining after each: its own entry
    let mut twin = Session::new();
    let mut expected: Vec<String> = vec![];
    let mut refusal_then_accept = false;
    let mut seen_refusal = false;
    let mut first_refusal_kind = "";
    let mut refused_idx: Vec<usize> = vec![];
    for (ci, c) in case.cmds.iter().enumerate() {
        let line = render(c, &db_twin, &new_twin);
        let (r, msgs) = twin.send(&srv.node, line.trim());
        let entry = match &r {
            Response::Error { msg } => msg.clone(),
            Response::VersionError { msg, .. } => msg.clone(),
            _ => msgs.first().cloned().unwrap_or_else(|| "empty".to_string()),
        };
        if is_refusal(&r) {
            refused_idx.push(ci);
            if !seen_refusal {
                first_refusal_kind = if !msgs.is_empty() { "refusal-that-also-pushes-a-message" } else { "plain-refusal" };
            }
            seen_refusal = true;
        } else if seen_refusal {
            refusal_then_accept = true;
        }
        expected.push(entry.replace(&db_twin, "{DB}").replace(&new_twin, "{NEW}"));
    }
    let _ = twin.disconnect(&srv.node);

    // what the property says outright: a refused command never shifts or replaces the entries of the others. The same
    // commands without the refused ones, on a database prepared the same way, must produce the same entries for the rest
    // (a refused command changes nothing: not the data, not the session)
    let mut relation_fail: Option<(String, String)> = None;
    // (one refused command at a time: the first. The commands after it stay, refused or not: their entries must not change)
    refused_idx.truncate(1);
    if !refused_idx.is_empty() && refused_idx.len() < case.cmds.len() {
        let (db_r, new_r) = (format!("r{}x{}", pid, n), format!("nr{}x{}", pid, n));
        prepare_db(srv, &db_r);
        prepare_db(srv, &format!("{}b", db_r));
        let mut s3 = Session::new();
        let mut reduced: Vec<String> = vec![];
        for (ci, c) in case.cmds.iter().enumerate() {
            if refused_idx.contains(&ci) {
                continue;
            }
            let line = render(c, &db_r, &new_r);
            let (r, msgs) = s3.send(&srv.node, line.trim());
            let entry = match &r {
                Response::Error { msg } => msg.clone(),
                Response::VersionError { msg, .. } => msg.clone(),
                _ => msgs.first().cloned().unwrap_or_else(|| "empty".to_string()),
            };
            reduced.push(entry.replace(&db_r, "{DB}").replace(&new_r, "{NEW}"));
        }
        let _ = s3.disconnect(&srv.node);
        let mask = |e: &String| -> String {
            // operation ids (wall-clock nanoseconds) differ from run to run
            let mut out = String::new();
            let mut digits = String::new();
            for ch in e.chars().chain(std::iter::once(' ')) {
                if ch.is_ascii_digit() {
                    digits.push(ch);
                } else {
                    if digits.len() >= 15 {
                        out.push('#');
                    } else {
                        out.push_str(&digits);
                    }
                    digits.clear();
                    out.push(ch);
                }
            }
            out
        };
        let kept: Vec<String> = expected.iter().enumerate().filter(|(i, _)| !refused_idx.contains(i)).map(|(_, e)| mask(e)).collect();
        let reduced_m: Vec<String> = reduced.iter().map(mask).collect();
        if kept != reduced_m {
            let which: Vec<&String> = refused_idx.iter().map(|i| &case.cmds[*i]).collect();
            relation_fail = Some((format!("C20|a-refused-command-changed-the-entries-of-the-others|{}", classify(which[0])), format!("commands {:?}: the refused ones {:?} left out, the others answer {:?}; with them {:?}", case.cmds, which, reduced, kept)));
        }
    }

    let body = body_of(case, &db_http, &new_http);
    let mut out = Outcome::ok(refusal_then_accept);
    if relation_fail.is_some() {
        out.fail = relation_fail;
        return out;
    }
    if refusal_then_accept {
        out.classes.push("refused-then-accepted");
    }
    let (status, reply) = match transport::http_post(srv.port, &body) {
        Ok(x) => x,
        Err(e) => {
            out.fail = Some(("C20|http-io".to_string(), format!("POST {:?}: {}", body, e)));
            return out;
        }
    };
    if !status.contains("200") {
        out.fail = Some(("C20|http-status".to_string(), format!("POST {:?}: {}", body, status)));
        return out;
    }
    let got: Vec<String> = reply.split(';').map(|s| s.replace(&db_http, "{DB}").replace(&new_http, "{NEW}")).collect();
    let ctxt = || format!("body {:?}\n  expected entries {:?}\n  got entries      {:?}", body, expected, got);
    if got.len() != expected.len() {
        out.fail = Some((format!("C20|entry-count|{}", first_refusal_kind), ctxt()));
        return out;
    }
    for (i, (g, e)) in got.iter().zip(expected.iter()).enumerate() {
        if g != e {
            let shifted = i > 0 && expected[..i].iter().any(|x| x == g);
            out.fail = Some((format!("C20|entry-mismatch|{}|{}|{}", classify(&case.cmds[i]), if shifted { "entry-of-an-earlier-command" } else { "other-text" }, first_refusal_kind), format!("entry {} differs; {}", i, ctxt())));
            return out;
        }
    }
    // executed once each, in order: same final state as the reference run
    // (the HTTP worker finishes its bookkeeping after it has answered: wait for the connection count to settle)
    let mut conn = String::new();
    // (up to 30 s: slowness under load is not a finding)
    for _ in 0..15_000 {
        conn = srv.node.dump_db(&db_http).and_then(|m| m.get("$connections").map(|v| v.0.clone())).unwrap_or_else(|| "0".to_string());
        if conn == "0" {
            break;
        }
        transport::real_sleep(std::time::Duration::from_millis(2));
    }
    let (dh, dt) = (db_dump(&srv.node, &db_http), db_dump(&srv.node, &db_twin));
    if dh != dt {
        out.fail = Some(("C20|state-differs".to_string(), format!("final state differs from the one-by-one run: http {:?} vs reference {:?}; {}", dh, dt, ctxt())));
        return out;
    }
    if srv.node.dbs.has_db(&new_http) != srv.node.dbs.has_db(&new_twin) {
        out.fail = Some(("C20|state-differs|create-db".to_string(), ctxt()));
        return out;
    }
    if conn != "0" {
        out.fail = Some(("C20|connection-not-released".to_string(), format!("$connections of {} is {:?} after the request ended; {}", db_http, conn, ctxt())));
        return out;
    }
    for db in [db_http.clone(), format!("{}b", db_http)] {
        let (senders, arbiter) = subscriptions_left(&srv.node, &db);
        if senders > 0 {
            out.fail = Some(("C20|subscription-not-released".to_string(), format!("{} sender(s) of the request's session are still in the watcher lists of {} after the request ended; {}", senders, db, ctxt())));
            return out;
        }
        // (that the database still "has an arbiter" after the request is not a subscription left behind: C13 wants conflicts
        // recorded for the next arbiter once one has registered; the sender itself must be gone, which is counted above)
        let _ = arbiter;
    }
    if case.cmds.iter().any(|c| c.starts_with("watch") || c == "arbiter") {
        out.nontrivial = true;
        out.classes.push("request-subscribes");
    }
    out
}

/// The same body sent to a node that is a secondary: apart from create-db (only the primary creates databases) every
/// entry is what the primary answers — a refused write is reported with its error text on every node.
pub fn run_role_case(pri: &Server, sec: &Server, case: &Case) -> Outcome {
    let n = pri.counter.get();
    pri.counter.set(n + 1);
    let pid = std::process::id();
    let db = format!("r{}x{}", pid, n);
    let mut out = Outcome::ok(case.cmds.iter().any(|c| c.contains("stale")));
    out.classes.push("same-body-on-a-secondary");
    let mut replies = vec![];
    for srv in [pri, sec] {
        // (databases are created while the node is the primary; the secondary's role is set afterwards)
        srv.node.dbs.node_state.swap(nundb::bo::ClusterRole::Primary as usize, std::sync::atomic::Ordering::SeqCst);
        prepare_db(srv, &db);
        prepare_db(srv, &format!("{}b", db));
        if std::ptr::eq(srv, sec) {
            srv.node.dbs.node_state.swap(nundb::bo::ClusterRole::Secoundary as usize, std::sync::atomic::Ordering::SeqCst);
        }
        let body = body_of(case, &db, "never-created");
        match transport::http_post(srv.port, &body) {
            Ok((status, reply)) if status.contains("200") => replies.push((body, reply)),
            Ok((status, _)) => {
                out.fail = Some(("C20|http-status".to_string(), format!("POST {:?}: {}", body, status)));
                return out;
            }
            Err(e) => {
                out.fail = Some(("C20|http-io".to_string(), format!("POST {:?}: {}", body, e)));
                return out;
            }
        }
    }
    let (p, s): (Vec<&str>, Vec<&str>) = (replies[0].1.split(';').collect(), replies[1].1.split(';').collect());
    let cmds: Vec<&String> = case.cmds.iter().collect();
    if p.len() != s.len() {
        out.fail = Some(("C20|on-a-secondary|entry-count".to_string(), format!("body {:?}: the primary answers {:?}, a secondary {:?}", replies[0].0, p, s)));
        return out;
    }
    if p.len() == cmds.len() {
        for (i, c) in cmds.iter().enumerate() {
            if c.starts_with("create-db") {
                continue;
            }
            if p[i] != s[i] {
                out.fail = Some((format!("C20|on-a-secondary|entry-differs|{}", classify(c)), format!("body {:?}: entry {} ({:?}) is {:?} on the primary and {:?} on a secondary; all entries {:?} vs {:?}", replies[0].0, i, c, p[i], s[i], p, s)));
                return out;
            }
        }
    }
    out
}

fn pairs() -> Vec<Case> {
    let t = templates();
    let mut out = vec![];
    for a in t.iter() {
        out.push(Case { cmds: vec![a.to_string()], seps: vec![0], trailing: false, leading_blank: false });
        for b in t.iter() {
            out.push(Case { cmds: vec!["use-db {DB} tok".to_string(), a.to_string(), b.to_string()], seps: vec![0, 1, 0], trailing: true, leading_blank: false });
            out.push(Case { cmds: vec![a.to_string(), b.to_string()], seps: vec![0, 0], trailing: false, leading_blank: false });
        }
    }
    out
}

/// the same body as ONE WebSocket frame: executed once each, in order (state = the one-by-one reference run)
pub fn run_ws_case(srv: &Server, ws_port: u16, case: &Case) -> Outcome {
    let n = srv.counter.get();
    srv.counter.set(n + 1);
    let pid = std::process::id();
    let (db_ws, db_twin) = (format!("w{}x{}", pid, n), format!("v{}x{}", pid, n));
    let (new_ws, new_twin) = (format!("nw{}x{}", pid, n), format!("nv{}x{}", pid, n));
    prepare_db(srv, &db_ws);
    prepare_db(srv, &db_twin);
    prepare_db(srv, &format!("{}b", db_ws));
    prepare_db(srv, &format!("{}b", db_twin));
    let mut twin = Session::new();
    for c in case.cmds.iter() {
        let line = render(c, &db_twin, &new_twin);
        twin.send(&srv.node, line.trim());
    }
    let _ = twin.disconnect(&srv.node);
    // the WebSocket server does not trim statements: no decorations, single ';'
    let body: Vec<String> = case.cmds.iter().map(|c| render(c, &db_ws, &new_ws)).collect();
    let mut out = Outcome::ok(case.cmds.len() >= 2);
    if let Err(e) = transport::ws_exchange(ws_port, vec![transport::Frame::Text(body.join(";"))], 250) {
        out.fail = Some(("C20|ws-io".to_string(), e));
        return out;
    }
    let mut ok = false;
    let (mut dh, mut dt) = (db_dump(&srv.node, &db_ws), db_dump(&srv.node, &db_twin));
    // (up to 20 s: the WebSocket server works on its own thread, slowness under load is not a finding)
    for _ in 0..4000 {
        dh = db_dump(&srv.node, &db_ws);
        dt = db_dump(&srv.node, &db_twin);
        let conn = srv.node.dump_db(&db_ws).and_then(|m| m.get("$connections").map(|v| v.0.clone())).unwrap_or_else(|| "0".to_string());
        let left = subscriptions_left(&srv.node, &db_ws);
        let left_b = subscriptions_left(&srv.node, &format!("{}b", db_ws));
        if dh == dt && conn == "0" && left.0 == 0 && left_b.0 == 0 {
            ok = true;
            break;
        }
        transport::real_sleep(std::time::Duration::from_millis(5));
    }
    if !ok {
        out.fail = Some(("C20|ws-frame|state-differs-or-connection-not-released".to_string(), format!("frame {:?}: websocket run {:?}, one-by-one reference {:?}; subscriptions left (senders, arbiter) {:?} / {:?}", body.join(";"), dh, dt, subscriptions_left(&srv.node, &db_ws), subscriptions_left(&srv.node, &format!("{}b", db_ws)))));
    } else if srv.node.dbs.has_db(&new_ws) != srv.node.dbs.has_db(&new_twin) {
        out.fail = Some(("C20|ws-frame|create-db-differs".to_string(), format!("frame {:?}", body.join(";"))));
    }
    out
}

pub fn run(ctx: &Ctx, rep: &mut Report) {
    let srv = start_server(ctx);
    let n = ctx.amount(24_000, 400_000);
    explore(ctx, rep, "bodies", n, case_strategy(), |c| run_case(&srv, c));
    if rep.failures.is_empty() {
        enumerate(ctx, rep, "all-bodies-of-1-and-2-commands", pairs().into_iter(), |c| run_case(&srv, c));
    }
    if rep.failures.is_empty() {
        let ws_port = transport::start_ws(srv.node.dbs.clone());
        let n = ctx.amount(160, 6000);
        explore(ctx, rep, "websocket-frames", n, case_strategy(), |c| run_ws_case(&srv, ws_port, c));
    }
    if rep.failures.is_empty() {
        let sec = start_server_named(ctx, "secondary");
        let n = ctx.amount(3000, 60_000);
        // (no create-db: the database would exist on one of the two servers only; no increment: a secondary does not
        // apply it, it forwards it to the primary and answers ok whatever the key holds)
        let strat = case_strategy().prop_map(|mut c| {
            for cmd in c.cmds.iter_mut() {
                if cmd.starts_with("create-db") || cmd.starts_with("increment") {
                    *cmd = "set-safe a 0 stale".to_string();
                }
            }
            c
        });
        explore(ctx, rep, "bodies-on-a-secondary", n, strat, |c| run_role_case(&srv, &sec, c));
    }
}

pub fn replay(ctx: &Ctx, engine: &str, case: &J) -> Result<Option<(String, String)>, String> {
    let srv = start_server(ctx);
    if engine == "bodies-on-a-secondary" {
        let sec = start_server_named(ctx, "secondary");
        return replay_guarded::<Case>(ctx, case, |c| run_role_case(&srv, &sec, c));
    }
    if engine == "websocket-frames" {
        let ws_port = transport::start_ws(srv.node.dbs.clone());
        return replay_guarded::<Case>(ctx, case, |c| run_ws_case(&srv, ws_port, c));
    }
    replay_guarded::<Case>(ctx, case, |c| run_case(&srv, c))
}
