//! C01 — reads return the latest successful write (single node, plain-map semantics).
use crate::model::{self, Db};
use crate::node::{is_refusal, resp_text, Node, Session};
use crate::report::{enumerate, explore, replay_guarded, Ctx, Outcome, Report};
use nundb::bo::Response;
use proptest::prelude::*;
use proptest::sample::select;
use serde::{Deserialize, Serialize};
use serde_json::Value as J;
use std::collections::BTreeMap;

#[derive(Clone, Debug, Serialize, Deserialize, PartialEq)]
pub enum Ver {
    Unversioned,  // -1
    Abs(i32),
    Rel(i32), // current + delta
}

#[derive(Clone, Debug, Serialize, Deserialize, PartialEq)]
pub enum Op {
    Set { k: String, v: String, admin: bool },
    SetSafe { k: String, ver: Ver, v: String },
    Get { k: String, admin: bool },
    GetSafe { k: String },
    Remove { k: String, admin: bool },
    Inc { k: String, n: i32 },
    /// an increment whose argument is not a 32-bit integer: nothing can be "added exactly", it has to be refused
    IncBadArg { k: String, arg: String },
    Keys { p: String, admin: bool },
    Snapshot { reclaim: bool },
    Tick,
}

#[derive(Clone, Debug, Serialize, Deserialize)]
pub struct Case {
    pub ops: Vec<Op>,
    /// per op, how the key is spelled on the wire: 0 as it is, 1 with a CR after its first character, 2 with a LF there
    /// (nun-db drops line breaks from key names: every command must mean the same key by the same text)
    #[serde(default)]
    pub spell: Vec<u8>,
}

fn wire(spell: u8, k: &str) -> String {
    let brk = match spell {
        1 => "\r",
        2 => "\n",
        _ => return k.to_string(),
    };
    let mut cs = k.chars();
    match cs.next() {
        Some(c) => format!("{}{}{}", c, brk, cs.as_str()),
        None => k.to_string(),
    }
}

fn s(x: &[&'static str]) -> impl Strategy<Value = String> {
    select(x.to_vec()).prop_map(|s| s.to_string())
}

pub fn op_strategy() -> impl Strategy<Value = Op> {
    let ver = prop_oneof![
        Just(Ver::Unversioned),
        select(vec![0, 1, 2]).prop_map(Ver::Abs),
        select(vec![0, -1, 1, 5]).prop_map(Ver::Rel),
    ];
    prop_oneof![
        4 => (s(model::KEYS), s(model::VALUES), any::<bool>()).prop_map(|(k, v, admin)| Op::Set { k, v, admin }),
        2 => (s(model::PLAIN_KEYS), ver, s(model::VALUES)).prop_map(|(k, ver, v)| Op::SetSafe { k, ver, v }),
        3 => (s(model::KEYS), any::<bool>()).prop_map(|(k, admin)| Op::Get { k, admin }),
        1 => s(model::PLAIN_KEYS).prop_map(|k| Op::GetSafe { k }),
        3 => (s(model::KEYS), any::<bool>()).prop_map(|(k, admin)| Op::Remove { k, admin }),
        3 => (s(model::PLAIN_KEYS), select(model::INCS.to_vec())).prop_map(|(k, n)| Op::Inc { k, n }),
        1 => (s(model::PLAIN_KEYS), s(&["abc", "2147483648", "-2147483649", "1.5", "--5", "5x", "0x10", "1e3"])).prop_map(|(k, arg)| Op::IncBadArg { k, arg }),
        2 => (s(model::PATTERNS), any::<bool>()).prop_map(|(p, admin)| Op::Keys { p, admin }),
        2 => any::<bool>().prop_map(|reclaim| Op::Snapshot { reclaim }),
        2 => Just(Op::Tick),
    ]
}

/// hidden history class of a key (for signatures and the non-trivial rule)
#[derive(Clone, Copy, PartialEq, Debug)]
enum Hist {
    Never,
    Fresh,            // written, not yet snapshotted
    Persisted,        // written and snapshotted
    RemovedFresh,     // removed before it was ever snapshotted
    RemovedPersisted, // snapshotted, then removed
}

fn hist_name(h: Hist) -> &'static str {
    match h {
        Hist::Never => "never-written",
        Hist::Fresh => "unpersisted",
        Hist::Persisted => "persisted",
        Hist::RemovedFresh => "removed-unpersisted",
        Hist::RemovedPersisted => "removed-after-snapshot",
    }
}

const DB: &str = "d";
const TOKEN: &str = "tok";

pub struct World {
    pub node: Node,
    pub user: Session,
    pub admin: Session,
    pub model: Db,
    hist: BTreeMap<String, Hist>,
    snapshot_queued: bool,
    pub spell: u8,
}

impl World {
    pub fn new(dir: &str) -> World {
        let mut node = Node::boot_single(dir);
        let mut admin = Session::new();
        admin.auth(&node);
        admin.send(&node, &format!("create-db {} {}", DB, TOKEN));
        admin.send(&node, &format!("use-db {} {}", DB, TOKEN));
        let mut user = Session::new();
        user.send(&node, &format!("use-db {} {}", DB, TOKEN));
        node.pump();
        let mut model = Db::new();
        model.set("$$token", TOKEN);
        model.set("$connections", "2");
        World { node, user, admin, model, hist: BTreeMap::new(), snapshot_queued: false, spell: 0 }
    }
    fn hist(&self, k: &str) -> Hist {
        *self.hist.get(k).unwrap_or(&Hist::Never)
    }
    fn wrote(&mut self, k: &str) {
        let h = match self.hist(k) {
            Hist::Persisted | Hist::RemovedPersisted => self.hist(k),
            _ => Hist::Fresh,
        };
        // a persisted key that is rewritten is still a persisted (Updated) record
        let h = if h == Hist::RemovedPersisted { Hist::Persisted } else { h };
        self.hist.insert(k.to_string(), h);
    }
    fn removed(&mut self, k: &str) {
        let h = match self.hist(k) {
            Hist::Persisted | Hist::RemovedPersisted => Hist::RemovedPersisted,
            Hist::Never => Hist::Never,
            _ => Hist::RemovedFresh,
        };
        self.hist.insert(k.to_string(), h);
    }
    fn ticked(&mut self) {
        for (_k, h) in self.hist.iter_mut() {
            if *h == Hist::Fresh {
                *h = Hist::Persisted;
            }
        }
    }
}

fn mismatch(op: &str, hist: Hist, what: &str, detail: String) -> Option<(String, String)> {
    Some((format!("C01|{}|{}|{}", op, hist_name(hist), what), detail))
}

/// applies one op to implementation and model; Some(failure) on disagreement
fn step(w: &mut World, op: &Op, flags: &mut Flags) -> Option<(String, String)> {
    let sp = w.spell;
    match op {
        Op::Set { k, v, admin } => {
            let secure = k.starts_with("$$");
            let h = w.hist(k);
            let sess = if *admin { &mut w.admin } else { &mut w.user };
            let (r, msgs) = sess.send(&w.node, &format!("set {} {}", wire(sp, k), v));
            w.node.pump();
            let expect_ok = *admin || !secure;
            if expect_ok {
                if is_refusal(&r) {
                    return mismatch("set", h, "refused", format!("set {} {:?} refused: {}", k, v, resp_text(&r)));
                }
                w.model.set(k, v);
                w.wrote(k);
                if h == Hist::Persisted || h == Hist::RemovedPersisted {
                    flags.status_dependent = true;
                }
            } else if !is_refusal(&r) {
                return mismatch("set", h, "secure-key-accepted", format!("non-admin set {} accepted", k));
            }
            if !msgs.is_empty() {
                return mismatch("set", h, "unexpected-message", format!("{:?}", msgs));
            }
        }
        Op::SetSafe { k, ver, v } => {
            let h = w.hist(k);
            let cur = w.node.dbs.map.read().unwrap().get(DB).unwrap().get_value(k.clone()).map(|x| x.version).unwrap_or(0);
            let ver = match ver {
                Ver::Unversioned => -1,
                Ver::Abs(n) => *n,
                Ver::Rel(d) => cur.saturating_add(*d).max(0),
            };
            let (r, _msgs) = w.user.send(&w.node, &format!("set-safe {} {} {}", wire(sp, k), ver, v));
            w.node.pump();
            // acceptance itself is C02's business: the model follows the reply
            if !is_refusal(&r) {
                w.model.set(k, v);
                w.wrote(k);
                if h == Hist::Persisted || h == Hist::RemovedPersisted {
                    flags.status_dependent = true;
                }
            } else {
                flags.refusals += 1;
            }
        }
        Op::Get { k, admin } => {
            let secure = k.starts_with("$$");
            let h = w.hist(k);
            let sess = if *admin { &mut w.admin } else { &mut w.user };
            let (r, msgs) = sess.send(&w.node, &format!("get {}", wire(sp, k)));
            if *admin || !secure {
                let want = w.model.get(k);
                match &r {
                    Response::Value { value, .. } if *value == want => {}
                    _ => return mismatch("get", h, "wrong-value", format!("get {}: expected {:?}, got {}", k, want, resp_text(&r))),
                }
                if msgs != vec![model::value_line(&want)] {
                    return mismatch("get", h, "wrong-message", format!("get {}: expected {:?}, got {:?}", k, model::value_line(&want), msgs));
                }
            } else if !is_refusal(&r) || !msgs.is_empty() {
                return mismatch("get", h, "secure-key-read", format!("non-admin get {} -> {} {:?}", k, resp_text(&r), msgs));
            }
        }
        Op::GetSafe { k } => {
            let h = w.hist(k);
            let (r, msgs) = w.user.send(&w.node, &format!("get-safe {}", wire(sp, k)));
            let want = w.model.get(k);
            match &r {
                Response::Value { value, version, .. } if *value == want => {
                    if msgs != vec![model::value_version_line(*version, &want)] {
                        return mismatch("get-safe", h, "wrong-message", format!("get-safe {}: got {:?}", k, msgs));
                    }
                }
                _ => return mismatch("get-safe", h, "wrong-value", format!("get-safe {}: expected {:?}, got {}", k, want, resp_text(&r))),
            }
        }
        Op::Remove { k, admin } => {
            let secure = k.starts_with("$$");
            let h = w.hist(k);
            let sess = if *admin { &mut w.admin } else { &mut w.user };
            let (r, msgs) = sess.send(&w.node, &format!("remove {}", wire(sp, k)));
            w.node.pump();
            let expect_ok = (*admin || !secure) && k != "$$token";
            if expect_ok {
                if is_refusal(&r) {
                    return mismatch("remove", h, "refused", format!("remove {} refused: {}", k, resp_text(&r)));
                }
                w.model.remove(k);
                w.removed(k);
                if h == Hist::Persisted {
                    flags.status_dependent = true;
                }
            } else if !is_refusal(&r) {
                return mismatch("remove", h, "accepted", format!("remove {} accepted", k));
            }
            if !msgs.is_empty() {
                return mismatch("remove", h, "unexpected-message", format!("{:?}", msgs));
            }
        }
        Op::Inc { k, n } => {
            let h = w.hist(k);
            let before = w.model.clone();
            let expect = w.model.increment(k, *n);
            let (r, msgs) = w.user.send(&w.node, &format!("increment {} {}", wire(sp, k), n));
            w.node.pump();
            match expect {
                Ok(_) => {
                    if is_refusal(&r) {
                        w.model = before;
                        return mismatch("increment", h, "refused", format!("increment {} {} on {:?} refused: {}", k, n, w.model.live.get(k), resp_text(&r)));
                    }
                    w.wrote(k);
                    if h == Hist::Persisted || h == Hist::RemovedPersisted {
                        flags.status_dependent = true;
                    }
                }
                Err(()) => {
                    flags.refusals += 1;
                    if !is_refusal(&r) {
                        return mismatch("increment", h, "accepted-non-integer", format!("increment {} {} on {:?} accepted", k, n, w.model.live.get(k)));
                    }
                }
            }
            if !msgs.is_empty() {
                return mismatch("increment", h, "unexpected-message", format!("{:?}", msgs));
            }
        }
        Op::IncBadArg { k, arg } => {
            let h = w.hist(k);
            let before = w.node.dump_db(DB);
            let (r, _msgs) = w.user.send(&w.node, &format!("increment {} {}", wire(sp, k), arg));
            w.node.pump();
            flags.refusals += 1;
            if !is_refusal(&r) {
                return mismatch("increment", h, "argument-that-is-no-integer-accepted", format!("increment {} {} answered {} (the key holds {:?} now, {:?} before)", k, arg, resp_text(&r), w.node.dump_db(DB).and_then(|m| m.get(k).cloned()), before.as_ref().and_then(|m| m.get(k).cloned())));
            }
            if w.node.dump_db(DB) != before {
                return mismatch("increment", h, "refused-but-changed", format!("increment {} {} was refused and changed the database", k, arg));
            }
        }
        Op::Keys { p, admin } => {
            let sess = if *admin { &mut w.admin } else { &mut w.user };
            let (r, msgs) = sess.send(&w.node, &format!("keys {}", p));
            let want = w.model.keys(p, *admin);
            let want_v = model::keys_value(&want);
            match &r {
                Response::Value { value, .. } if *value == want_v => {}
                _ => {
                    // classify: which key is wrong, and what is its history
                    let got: Vec<String> = match &r {
                        Response::Value { value, .. } => value.split(',').skip(1).map(|s| s.to_string()).collect(),
                        _ => vec![],
                    };
                    let mut culprit = Hist::Never;
                    let mut what = "wrong-list";
                    for k in got.iter() {
                        if !want.contains(k) {
                            culprit = w.hist(k);
                            what = "extra-key";
                            if k.starts_with("$$") && !*admin {
                                what = "secure-key-listed";
                            }
                            break;
                        }
                    }
                    if what == "wrong-list" {
                        for k in want.iter() {
                            if !got.contains(k) {
                                culprit = w.hist(k);
                                what = "missing-key";
                                break;
                            }
                        }
                    }
                    return mismatch("keys", culprit, what, format!("keys {:?} admin={}: expected {:?}, got {}", p, admin, want_v, resp_text(&r)));
                }
            }
            if msgs != vec![model::keys_line(&want)] {
                return mismatch("keys", Hist::Never, "wrong-message", format!("keys {:?}: expected {:?} got {:?}", p, model::keys_line(&want), msgs));
            }
        }
        Op::Snapshot { reclaim } => {
            let (r, _msgs) = w.admin.send(&w.node, &format!("snapshot {}", reclaim));
            w.node.pump();
            if is_refusal(&r) {
                return mismatch("snapshot", Hist::Never, "refused", resp_text(&r));
            }
            w.snapshot_queued = true;
        }
        Op::Tick => {
            w.node.snapshot_tick();
            if w.snapshot_queued {
                w.ticked();
                w.snapshot_queued = false;
                flags.ticks += 1;
            }
        }
    }
    None
}

#[derive(Default)]
struct Flags {
    status_dependent: bool,
    refusals: u32,
    ticks: u32,
    spelled: bool,
}

/// final sweep: every key of the alphabet + everything either side knows, and the full listing
fn sweep(w: &mut World) -> Option<(String, String)> {
    let mut keys: Vec<String> = model::KEYS.iter().map(|s| s.to_string()).collect();
    keys.extend(w.model.live.keys().cloned());
    keys.sort();
    keys.dedup();
    for k in keys {
        let h = w.hist(&k);
        let (r, _) = w.admin.send(&w.node, &format!("get {}", k));
        let want = w.model.get(&k);
        match &r {
            Response::Value { value, .. } if *value == want => {}
            _ => return mismatch("final-get", h, "wrong-value", format!("final get {}: expected {:?}, got {}", k, want, resp_text(&r))),
        }
    }
    let (r, _) = w.admin.send(&w.node, "keys ");
    let want = model::keys_value(&w.model.keys("", true));
    match &r {
        Response::Value { value, .. } if *value == want => None,
        _ => mismatch("final-keys", Hist::Never, "wrong-list", format!("final keys: expected {:?}, got {}", want, resp_text(&r))),
    }
}

pub fn run_case(ctx: &Ctx, case: &Case) -> Outcome {
    let dir = ctx.fresh_dir();
    let mut w = World::new(&dir);
    let mut flags = Flags::default();
    let mut fail = None;
    for (i, op) in case.ops.iter().enumerate() {
        w.spell = case.spell.get(i).copied().unwrap_or(0);
        if w.spell != 0 {
            flags.spelled = true;
        }
        if let Some((sig, d)) = step(&mut w, op, &mut flags) {
            fail = Some((sig, format!("step {} ({:?}): {}", i, op, d)));
            break;
        }
    }
    if fail.is_none() {
        fail = sweep(&mut w);
    }
    drop(w);
    ctx.drop_dir(&dir);
    let mut out = Outcome::ok(flags.status_dependent);
    if flags.status_dependent {
        out.classes.push("write-after-snapshot-of-same-key");
    }
    if flags.ticks > 0 {
        out.classes.push("has-executed-snapshot");
    }
    if flags.refusals > 0 {
        out.classes.push("has-refusal");
    }
    if flags.spelled {
        out.classes.push("a-key-spelled-with-a-line-break");
    }
    out.fail = fail;
    out
}

/// reduced alphabet for the exhaustive tier
fn small_ops() -> Vec<Op> {
    let mut v = vec![];
    for k in ["a", "ab"] {
        for val in ["1", "x y"] {
            v.push(Op::Set { k: k.into(), v: val.into(), admin: false });
        }
        v.push(Op::Get { k: k.into(), admin: false });
        v.push(Op::Remove { k: k.into(), admin: false });
        v.push(Op::Inc { k: k.into(), n: 1 });
    }
    v.push(Op::Keys { p: "a*".into(), admin: false });
    v.push(Op::Snapshot { reclaim: false });
    v.push(Op::Snapshot { reclaim: true });
    v.push(Op::Tick);
    v
}

fn sequences(alphabet: &[Op], len: usize) -> Vec<Case> {
    let mut out: Vec<Vec<Op>> = vec![vec![]];
    for _ in 0..len {
        let mut next = vec![];
        for p in &out {
            for o in alphabet {
                let mut q = p.clone();
                q.push(o.clone());
                next.push(q);
            }
        }
        out = next;
    }
    out.into_iter().map(|ops| Case { ops, spell: vec![] }).collect()
}

pub fn run(ctx: &Ctx, rep: &mut Report) {
    crate::interpose::virtual_clock(true);
    let n = ctx.amount(60_000, 400_000);
    explore(ctx, rep, "histories", n, (prop::collection::vec(op_strategy(), 1..40), prop_oneof![3 => Just(vec![]), 2 => prop::collection::vec(prop_oneof![4 => Just(0u8), 2 => Just(1u8), 1 => Just(2u8)], 40)]).prop_map(|(ops, spell)| Case { ops, spell }), |c| run_case(ctx, c));
    let max_len = ctx.amount(3, 4) as usize;
    let alpha = small_ops();
    for len in 1..=max_len {
        if !rep.failures.is_empty() {
            break;
        }
        enumerate(ctx, rep, &format!("exhaustive-len{}", len), sequences(&alpha, len).into_iter(), |c| run_case(ctx, c));
    }
}

pub fn replay(ctx: &Ctx, _engine: &str, case: &J) -> Result<Option<(String, String)>, String> {
    crate::interpose::virtual_clock(true);
    replay_guarded::<Case>(ctx, case, |c| run_case(ctx, c))
}
