//! E5: in-process S3-compatible stub (tiny_http) with scripted faults, enough for aws-sdk-s3 as
//! nun-db configures it (path style, PutObject / GetObject / ListObjectsV2).
use std::collections::BTreeMap;
use std::io::Read;
use std::sync::atomic::{AtomicU64, Ordering};
use std::sync::{Arc, Mutex};

#[derive(Clone, Debug, Default, PartialEq)]
pub struct Faults {
    /// (n, count, status): PUT requests number n .. n+count-1 (1-based, SDK retries are requests too) answer `status`;
    /// count = u64::MAX means every PUT from the n-th on
    pub put_fail: Option<(u64, u64, u16)>,
    /// the n-th GET object answers 500 once
    pub get_fail: Option<u64>,
    /// every PUT of an object whose path ends with this text answers 500 (one object is unwritable, the others are fine)
    pub put_fail_suffix: Option<String>,
    /// status of the injected GET failure (500 is retried by the SDK itself, 403 is not); 0 = 500
    pub get_fail_status: u16,
    /// ListObjectsV2 answers at most this many keys per request and marks the answer truncated (S3 itself stops at
    /// 1000 and may always answer fewer); 0 = 1000
    pub list_page: usize,
}

/// called for every PUT that is going to be stored, before it is stored and answered (the uploader is waiting for the
/// answer): (object path, number of the PUT)
pub type OnPut = Box<dyn FnMut(&str, u64) + Send>;
pub static ON_PUT: Mutex<Option<OnPut>> = Mutex::new(None);

pub struct Stub {
    pub port: u16,
    pub objects: Arc<Mutex<BTreeMap<String, Vec<u8>>>>,
    pub faults: Arc<Mutex<Faults>>,
    pub puts: Arc<AtomicU64>,
    pub gets: Arc<AtomicU64>,
    pub failed_puts: Arc<AtomicU64>,
    pub failed_gets: Arc<AtomicU64>,
}

fn pct_decode(s: &str) -> String {
    let b = s.as_bytes();
    let mut out = vec![];
    let mut i = 0;
    while i < b.len() {
        if b[i] == b'%' && i + 2 < b.len() + 0 && i + 2 <= b.len() - 1 + 0 {
            if let Ok(v) = u8::from_str_radix(&s[i + 1..i + 3], 16) {
                out.push(v);
                i += 3;
                continue;
            }
        }
        out.push(if b[i] == b'+' { b' ' } else { b[i] });
        i += 1;
    }
    String::from_utf8_lossy(&out).to_string()
}

fn xml_escape(s: &str) -> String {
    s.replace('&', "&amp;").replace('<', "&lt;").replace('>', "&gt;")
}

impl Stub {
    pub fn start() -> Stub {
        let port = crate::transport::free_port();
        let server = tiny_http::Server::http(("127.0.0.1", port)).expect("s3 stub bind");
        let objects: Arc<Mutex<BTreeMap<String, Vec<u8>>>> = Arc::new(Mutex::new(BTreeMap::new()));
        let faults = Arc::new(Mutex::new(Faults::default()));
        let (puts, gets, failed_puts, failed_gets) = (Arc::new(AtomicU64::new(0)), Arc::new(AtomicU64::new(0)), Arc::new(AtomicU64::new(0)), Arc::new(AtomicU64::new(0)));
        let (o, f, p, g, fp, fg) = (objects.clone(), faults.clone(), puts.clone(), gets.clone(), failed_puts.clone(), failed_gets.clone());
        std::thread::spawn(move || {
            for mut rq in server.incoming_requests() {
                let url = rq.url().to_string();
                let (path, query) = match url.split_once('?') {
                    Some((p, q)) => (p.to_string(), q.to_string()),
                    None => (url.clone(), String::new()),
                };
                let path = pct_decode(&path);
                let method = rq.method().to_string();
                let fail500 = || tiny_http::Response::from_string("<Error><Code>InternalError</Code><Message>injected</Message></Error>").with_status_code(500);
                if method == "PUT" {
                    let n = p.fetch_add(1, Ordering::SeqCst) + 1;
                    let mut body = vec![];
                    let _ = rq.as_reader().read_to_end(&mut body);
                    let inject = {
                        let g = f.lock().unwrap();
                        g.put_fail.and_then(|(k, count, status)| if n >= k && n - k < count { Some(status) } else { None }).or_else(|| g.put_fail_suffix.as_ref().and_then(|s| if path.ends_with(s.as_str()) { Some(500) } else { None }))
                    };
                    if let Some(status) = inject {
                        fp.fetch_add(1, Ordering::SeqCst);
                        if status == 409 {
                            let _ = rq.respond(tiny_http::Response::from_string("<Error><Code>OperationAborted</Code><Message>injected</Message></Error>").with_status_code(409));
                        } else {
                            let _ = rq.respond(fail500());
                        }
                        continue;
                    }
                    {
                        let mut cb = ON_PUT.lock().unwrap();
                        if let Some(cb) = cb.as_mut() {
                            cb(&path, n);
                        }
                    }
                    // body may be aws-chunked; nun-db sends plain bodies (verified by the self-test)
                    o.lock().unwrap().insert(path.clone(), body);
                    let _ = rq.respond(tiny_http::Response::from_string("").with_header(tiny_http::Header::from_bytes(&b"ETag"[..], &b"\"stub\""[..]).unwrap()));
                } else if method == "GET" && query.contains("list-type=2") {
                    let prefix = query.split('&').find_map(|kv| kv.strip_prefix("prefix=")).map(pct_decode).unwrap_or_default();
                    let bucket = path.trim_matches('/').to_string();
                    let store = o.lock().unwrap();
                    let token = query.split('&').find_map(|kv| kv.strip_prefix("continuation-token=")).map(pct_decode);
                    let page = { let lp = f.lock().unwrap().list_page; if lp == 0 { 1000 } else { lp } };
                    let mut rels: Vec<(String, usize)> = store.iter().map(|(k, v)| (k.trim_start_matches('/').strip_prefix(&format!("{}/", bucket)).unwrap_or(k).to_string(), v.len())).filter(|(rel, _)| rel.starts_with(&prefix)).collect();
                    rels.sort();
                    if let Some(t) = token.as_ref() {
                        rels.retain(|(rel, _)| rel > t);
                    }
                    let truncated = rels.len() > page;
                    rels.truncate(page);
                    let mut xml = String::from("<?xml version=\"1.0\" encoding=\"UTF-8\"?><ListBucketResult xmlns=\"http://s3.amazonaws.com/doc/2006-03-01/\">");
                    xml.push_str(&format!("<Name>{}</Name><Prefix>{}</Prefix><MaxKeys>1000</MaxKeys><IsTruncated>{}</IsTruncated>", xml_escape(&bucket), xml_escape(&prefix), truncated));
                    if let Some(t) = token.as_ref() {
                        xml.push_str(&format!("<ContinuationToken>{}</ContinuationToken>", xml_escape(t)));
                    }
                    if truncated {
                        xml.push_str(&format!("<NextContinuationToken>{}</NextContinuationToken>", xml_escape(&rels.last().unwrap().0)));
                    }
                    let count = rels.len();
                    for (rel, len) in rels.iter() {
                        xml.push_str(&format!("<Contents><Key>{}</Key><Size>{}</Size><StorageClass>STANDARD</StorageClass></Contents>", xml_escape(rel), len));
                    }
                    xml.push_str(&format!("<KeyCount>{}</KeyCount></ListBucketResult>", count));
                    let _ = rq.respond(tiny_http::Response::from_string(xml).with_header(tiny_http::Header::from_bytes(&b"Content-Type"[..], &b"application/xml"[..]).unwrap()));
                } else if method == "GET" {
                    let n = g.fetch_add(1, Ordering::SeqCst) + 1;
                    let inject = { f.lock().unwrap().get_fail.map(|k| n == k).unwrap_or(false) };
                    if inject {
                        fg.fetch_add(1, Ordering::SeqCst);
                        let status = f.lock().unwrap().get_fail_status;
                        if status == 403 {
                            let _ = rq.respond(tiny_http::Response::from_string("<Error><Code>AccessDenied</Code><Message>injected</Message></Error>").with_status_code(403));
                        } else {
                            let _ = rq.respond(fail500());
                        }
                        continue;
                    }
                    let body = o.lock().unwrap().get(&path).cloned();
                    match body {
                        Some(b) => {
                            let _ = rq.respond(tiny_http::Response::from_data(b));
                        }
                        None => {
                            let _ = rq.respond(tiny_http::Response::from_string("<Error><Code>NoSuchKey</Code><Message>not found</Message></Error>").with_status_code(404));
                        }
                    }
                } else {
                    let _ = rq.respond(tiny_http::Response::from_string("").with_status_code(405));
                }
            }
        });
        Stub { port, objects, faults, puts, gets, failed_puts, failed_gets }
    }

    pub fn reset(&self) {
        self.objects.lock().unwrap().clear();
        *self.faults.lock().unwrap() = Faults::default();
        self.puts.store(0, Ordering::SeqCst);
        self.gets.store(0, Ordering::SeqCst);
        self.failed_puts.store(0, Ordering::SeqCst);
        self.failed_gets.store(0, Ordering::SeqCst);
    }
}
