//! Byte decoders shared by the cargo-fuzz targets (/verif/fuzz) and by `nv <prop> --replay-bytes`.
use crate::props::{c10, c12};
use crate::report::{Ctx, Known, Tier};
use std::cell::RefCell;

thread_local! {
    static CTX: RefCell<Option<Ctx>> = RefCell::new(None);
}

fn known() -> Vec<Known> {
    let p = std::env::var("NV_KNOWN").unwrap_or_else(|_| "/verif/known-findings.txt".to_string());
    crate::report::parse_known(&std::fs::read_to_string(p).unwrap_or_default())
}

fn with_ctx<T>(prop: &str, f: impl FnOnce(&Ctx) -> T) -> T {
    CTX.with(|c| {
        let mut c = c.borrow_mut();
        if c.as_ref().map(|x| x.property != prop).unwrap_or(true) {
            crate::node::record_panic_locations();
            let ctx = Ctx::new(prop, Tier::Thorough, 1, 0, 1, known());
            let default_dir = ctx.scratch.join("default");
            std::fs::create_dir_all(&default_dir).unwrap();
            std::env::set_var("NUN_DBS_DIR", &default_dir);
            *c = Some(ctx);
        }
        f(c.as_ref().unwrap())
    })
}

pub fn decode_c10(data: &[u8]) -> Option<c10::Case> {
    if data.is_empty() {
        return None;
    }
    let auth = match data[0] % 4 {
        0 => c10::Auth::None,
        1 => c10::Auth::Admin,
        2 => c10::Auth::AdminDb,
        _ => c10::Auth::DbToken,
    };
    let repeat = match data[0] / 4 % 8 {
        7 => 101,
        _ => 1,
    };
    // bit 5: the richer world (arbiter database with a connected arbiter and a pending conflict)
    let world = (data[0] / 32) % 2;
    let text = String::from_utf8_lossy(&data[1..]).to_string();
    let lines: Vec<String> = text.split('\n').take(4).map(|s| s.to_string()).collect();
    Some(c10::Case { auth, lines, repeat, world })
}

pub fn decode_c12(data: &[u8]) -> c12::Case {
    let mut recs = vec![];
    let mut i = 0;
    while i + 2 <= data.len() && recs.len() < 64 {
        let (a, b) = (data[i], data[i + 1]);
        i += 2;
        let dt = [1u64, 1, 2, 7][(b & 3) as usize];
        let db = 1 + ((b >> 2) & 1) as u64;
        let key = 10 + ((b >> 3) % 3) as u64;
        recs.push(match a % 8 {
            0..=3 => c12::Rec::Key { db, key, remove: a & 8 != 0, dt },
            4 => c12::Rec::CreateDb { db, dt },
            5 => c12::Rec::Snapshot { dbs: vec![1, 2], dt },
            6 => c12::Rec::Snapshot { dbs: vec![db], dt },
            _ => c12::Rec::Key { db, key, remove: false, dt },
        });
    }
    c12::Case { recs, extra_since: vec![], far_future: false }
}

/// entry points of the fuzz targets: a failure with an unlisted signature aborts (libFuzzer saves the input)
pub fn c10(data: &[u8]) {
    if let Some(case) = decode_c10(data) {
        with_ctx("C10", |ctx| {
            c10::setup_process();
            let out = c10::run_case(ctx, &case);
            if let Some((sig, detail)) = out.fail {
                if !ctx.is_known(&sig) {
                    eprintln!("C10 violation: {} :: {}", sig, detail);
                    std::process::abort();
                }
            }
        });
    }
}

pub fn c12(data: &[u8]) {
    let case = decode_c12(data);
    with_ctx("C12", |ctx| {
        crate::interpose::virtual_clock(true);
        let out = c12::run_case(ctx, &case);
        if let Some((sig, detail)) = out.fail {
            if !ctx.is_known(&sig) {
                eprintln!("C12 violation: {} :: {}", sig, detail);
                std::process::abort();
            }
        }
    });
}
