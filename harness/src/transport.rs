//! E6: the real HTTP / TCP / WebSocket servers of nun-db started in-process on loopback ports.
use crate::node::Node;
use nundb::bo::Databases;
use std::io::{Read, Write};
use std::net::{TcpListener, TcpStream};
use std::sync::Arc;
use std::time::Duration;

pub fn free_port() -> u16 {
    let l = TcpListener::bind("127.0.0.1:0").expect("loopback bind");
    l.local_addr().unwrap().port()
}

/// Moves the node's two service loops to a background thread (what `block_on(join!(..))` does in main.rs).
pub fn run_services_in_background(node: &mut Node) {
    let (rep, sup) = node.take_futures();
    let dir = node.dir.clone();
    std::thread::spawn(move || {
        crate::node::use_dir(&dir);
        futures::executor::block_on(async {
            futures::join!(sup, rep);
        });
    });
}

pub fn start_http(dbs: Arc<Databases>) -> u16 {
    let port = free_port();
    let addr = Arc::new(format!("127.0.0.1:{}", port));
    std::thread::spawn(move || nundb::network::http_ops::start_http_client(dbs, addr));
    wait_listening(port);
    port
}

pub fn start_tcp(dbs: Arc<Databases>) -> u16 {
    let port = free_port();
    let addr = format!("127.0.0.1:{}", port);
    std::thread::spawn(move || nundb::network::tcp_ops::start_tcp_client(dbs, &addr));
    wait_listening(port);
    port
}

pub fn start_ws(dbs: Arc<Databases>) -> u16 {
    let port = free_port();
    let addr = Arc::new(format!("127.0.0.1:{}", port));
    std::thread::spawn(move || nundb::network::ws_ops::start_web_socket_client(dbs, addr));
    wait_listening(port);
    port
}

fn wait_listening(port: u16) {
    for _ in 0..400 {
        if TcpStream::connect(("127.0.0.1", port)).is_ok() {
            return;
        }
        real_sleep(Duration::from_millis(5));
    }
    panic!("server on port {} did not start listening", port);
}

/// a sleep that is never virtualised
pub fn real_sleep(d: Duration) {
    let ts = libc::timespec { tv_sec: d.as_secs() as libc::time_t, tv_nsec: d.subsec_nanos() as libc::c_long };
    unsafe {
        // poll with no fds = portable sleep that does not go through the interposed nanosleep
        let mut t = ts;
        libc::ppoll(std::ptr::null_mut(), 0, &mut t as *mut libc::timespec as *const libc::timespec, std::ptr::null());
    }
}

/// One HTTP/1.1 POST; returns (status line, body) or Err on I/O problems / timeout.
pub fn http_post(port: u16, body: &str) -> Result<(String, String), String> {
    let mut s = TcpStream::connect(("127.0.0.1", port)).map_err(|e| format!("connect: {}", e))?;
    s.set_read_timeout(Some(Duration::from_secs(120))).ok();
    let req = format!("POST / HTTP/1.1\r\nHost: localhost\r\nContent-Length: {}\r\nConnection: close\r\n\r\n", body.as_bytes().len());
    s.write_all(req.as_bytes()).map_err(|e| format!("write: {}", e))?;
    s.write_all(body.as_bytes()).map_err(|e| format!("write: {}", e))?;
    let mut buf = vec![];
    s.read_to_end(&mut buf).map_err(|e| format!("read: {}", e))?;
    let text = String::from_utf8_lossy(&buf).to_string();
    let (head, rest) = text.split_once("\r\n\r\n").ok_or_else(|| format!("no header end in {:?}", text))?;
    let status = head.lines().next().unwrap_or("").to_string();
    let chunked = head.to_ascii_lowercase().contains("transfer-encoding: chunked");
    let body = if chunked {
        let mut out = String::new();
        let mut r = rest;
        loop {
            let (len_line, after) = match r.split_once("\r\n") {
                Some(x) => x,
                None => break,
            };
            let n = usize::from_str_radix(len_line.trim(), 16).unwrap_or(0);
            if n == 0 {
                break;
            }
            out.push_str(&after[..n.min(after.len())]);
            r = after.get(n + 2..).unwrap_or("");
        }
        out
    } else {
        rest.to_string()
    };
    Ok((status, body))
}

// ------------------------------------------------------------------ raw TCP client

/// Sends `payload` (already containing the newlines) in one write, then collects everything the server
/// sends until it has been silent for `quiet_ms` (bounded by `max_ms`). Err = connect / IO failure.
pub fn tcp_exchange(port: u16, payload: &[u8], quiet_ms: u64, max_ms: u64) -> Result<String, String> {
    let mut s = TcpStream::connect(("127.0.0.1", port)).map_err(|e| format!("connect: {}", e))?;
    s.set_read_timeout(Some(Duration::from_millis(quiet_ms))).ok();
    s.write_all(payload).map_err(|e| format!("write: {}", e))?;
    let t0 = std::time::Instant::now();
    let mut out = vec![];
    let mut buf = [0u8; 4096];
    loop {
        match s.read(&mut buf) {
            Ok(0) => break,
            Ok(n) => out.extend_from_slice(&buf[..n]),
            Err(e) if e.kind() == std::io::ErrorKind::WouldBlock || e.kind() == std::io::ErrorKind::TimedOut => {
                if !out.is_empty() || t0.elapsed() > Duration::from_millis(max_ms) {
                    break;
                }
            }
            Err(e) => return Err(format!("read: {}", e)),
        }
        if t0.elapsed() > Duration::from_millis(max_ms) {
            break;
        }
    }
    Ok(String::from_utf8_lossy(&out).to_string())
}

/// Like `tcp_exchange`, but reads until the collected output contains `until` (or the server closes, or `max_ms`
/// passed): no assumption on how fast the server answers.
pub fn tcp_exchange_until(port: u16, payload: &[u8], until: &str, max_ms: u64) -> Result<String, String> {
    let mut s = TcpStream::connect(("127.0.0.1", port)).map_err(|e| format!("connect: {}", e))?;
    s.set_read_timeout(Some(Duration::from_millis(100))).ok();
    s.write_all(payload).map_err(|e| format!("write: {}", e))?;
    let t0 = std::time::Instant::now();
    let mut out = vec![];
    let mut buf = [0u8; 4096];
    while t0.elapsed() < Duration::from_millis(max_ms) {
        match s.read(&mut buf) {
            Ok(0) => break,
            Ok(n) => {
                out.extend_from_slice(&buf[..n]);
                if String::from_utf8_lossy(&out).contains(until) {
                    break;
                }
            }
            Err(e) if e.kind() == std::io::ErrorKind::WouldBlock || e.kind() == std::io::ErrorKind::TimedOut => {}
            Err(e) => return Err(format!("read: {}", e)),
        }
    }
    Ok(String::from_utf8_lossy(&out).to_string())
}

/// One TCP connection used command by command: `cmd` writes a line and collects the lines the server sends up to and
/// including its acknowledgement (`ok ...` or `error ...`), waiting as long as it takes (30 s at most).
pub struct TcpSession {
    stream: TcpStream,
    pending: Vec<u8>,
}

impl TcpSession {
    pub fn connect(port: u16) -> Result<TcpSession, String> {
        let stream = TcpStream::connect(("127.0.0.1", port)).map_err(|e| format!("connect: {}", e))?;
        stream.set_read_timeout(Some(Duration::from_millis(100))).ok();
        let mut s = TcpSession { stream, pending: vec![] };
        // the server greets every connection with one `ok` line before any command
        s.read_ack("<greeting>")?;
        Ok(s)
    }

    /// (acknowledgement line, the lines that came before it)
    pub fn cmd(&mut self, line: &str) -> Result<(String, Vec<String>), String> {
        self.stream.write_all(format!("{}\n", line).as_bytes()).map_err(|e| format!("write: {}", e))?;
        self.read_ack(line)
    }

    fn read_ack(&mut self, line: &str) -> Result<(String, Vec<String>), String> {
        let t0 = std::time::Instant::now();
        let mut before = vec![];
        let mut buf = [0u8; 4096];
        loop {
            while let Some(pos) = self.pending.iter().position(|b| *b == b'\n') {
                let l: Vec<u8> = self.pending.drain(..=pos).collect();
                let l = String::from_utf8_lossy(&l).trim_end_matches('\n').to_string();
                if l.starts_with("ok") || l.starts_with("error") {
                    return Ok((l, before));
                }
                before.push(l);
            }
            if t0.elapsed() > Duration::from_secs(30) {
                return Err(format!("no acknowledgement within 30 s for {:?}; got {:?}", line, before));
            }
            match self.stream.read(&mut buf) {
                Ok(0) => return Err(format!("the server closed the connection after {:?}; got {:?}", line, before)),
                Ok(n) => self.pending.extend_from_slice(&buf[..n]),
                Err(e) if e.kind() == std::io::ErrorKind::WouldBlock || e.kind() == std::io::ErrorKind::TimedOut => {}
                Err(e) => return Err(format!("read: {}", e)),
            }
        }
    }
}

// ------------------------------------------------------------------ WebSocket client (ws crate)

#[derive(Clone, Debug)]
pub enum Frame {
    Text(String),
    Binary(Vec<u8>),
}

struct WsClient {
    out: ws::Sender,
    frames: Vec<Frame>,
    got: std::sync::mpsc::Sender<String>,
    wait_ms: u64,
    /// close as soon as a message containing this text has arrived
    until: Option<String>,
}

impl ws::Handler for WsClient {
    fn on_open(&mut self, _: ws::Handshake) -> ws::Result<()> {
        for f in self.frames.iter() {
            match f {
                Frame::Text(t) => self.out.send(ws::Message::Text(t.clone()))?,
                Frame::Binary(b) => self.out.send(ws::Message::Binary(b.clone()))?,
            }
        }
        self.out.timeout(self.wait_ms, ws::util::Token(1))
    }
    fn on_message(&mut self, msg: ws::Message) -> ws::Result<()> {
        let text = msg.to_string();
        let done = self.until.as_ref().map(|u| text.contains(u.as_str())).unwrap_or(false);
        let _ = self.got.send(text);
        if done {
            return self.out.close(ws::CloseCode::Normal);
        }
        Ok(())
    }
    fn on_timeout(&mut self, _: ws::util::Token) -> ws::Result<()> {
        self.out.close(ws::CloseCode::Normal)
    }
}

/// Opens a WebSocket connection, sends the frames, collects text messages for `wait_ms`, closes.
pub fn ws_exchange(port: u16, frames: Vec<Frame>, wait_ms: u64) -> Result<Vec<String>, String> {
    ws_exchange_inner(port, frames, wait_ms, None)
}

/// Sends the frames and waits until a message containing `until` arrives (at most `max_ms`): no assumption on how
/// fast the server answers.
pub fn ws_exchange_until(port: u16, frames: Vec<Frame>, until: &str, max_ms: u64) -> Result<Vec<String>, String> {
    ws_exchange_inner(port, frames, max_ms, Some(until.to_string()))
}

fn ws_exchange_inner(port: u16, frames: Vec<Frame>, wait_ms: u64, until: Option<String>) -> Result<Vec<String>, String> {
    let (tx, rx) = std::sync::mpsc::channel();
    let url = format!("ws://127.0.0.1:{}", port);
    let h = std::thread::spawn(move || ws::connect(url, |out| WsClient { out, frames: frames.clone(), got: tx.clone(), wait_ms, until: until.clone() }).map_err(|e| format!("{}", e)));
    // the client library arms its own timeout only once the handshake is done: a server that accepts the connection and
    // never answers the handshake would keep the client (and the caller) waiting for ever
    let t0 = std::time::Instant::now();
    while !h.is_finished() {
        if t0.elapsed() > Duration::from_millis(wait_ms + 30_000) {
            return Err(format!("the WebSocket exchange did not end within {} ms (handshake never answered?); last panic in this process: {} at {}", wait_ms + 30_000, crate::node::last_panic_msg(), crate::node::last_panic_loc()));
        }
        real_sleep(Duration::from_millis(2));
    }
    let r = h.join().map_err(|_| "ws client thread panicked".to_string())?;
    r?;
    let mut out = vec![];
    while let Ok(m) = rx.try_recv() {
        out.push(m);
    }
    Ok(out)
}


// ------------------------------------------------------------------ a WebSocket client made by hand
// The `ws` library refuses to send what a misbehaving (or merely different) client can send: close frames with codes
// it considers invalid, text frames that are no UTF-8. These few functions speak the protocol over a TcpStream.

pub fn raw_ws_connect(port: u16) -> Result<std::net::TcpStream, String> {
    use std::io::{Read, Write};
    let mut s = std::net::TcpStream::connect(("127.0.0.1", port)).map_err(|e| e.to_string())?;
    s.set_read_timeout(Some(std::time::Duration::from_millis(5000))).ok();
    let req = format!("GET / HTTP/1.1\r\nHost: 127.0.0.1:{}\r\nUpgrade: websocket\r\nConnection: Upgrade\r\nSec-WebSocket-Key: dGhlIHNhbXBsZSBub25jZQ==\r\nSec-WebSocket-Version: 13\r\n\r\n", port);
    s.write_all(req.as_bytes()).map_err(|e| e.to_string())?;
    let mut got = Vec::new();
    let mut buf = [0u8; 1];
    while !got.ends_with(b"\r\n\r\n") {
        match s.read(&mut buf) {
            Ok(1) => got.push(buf[0]),
            _ => return Err(format!("handshake not answered: {:?}", String::from_utf8_lossy(&got))),
        }
    }
    if !String::from_utf8_lossy(&got).starts_with("HTTP/1.1 101") {
        return Err(format!("handshake refused: {:?}", String::from_utf8_lossy(&got)));
    }
    Ok(s)
}

/// one masked frame (clients must mask); payloads below 126 bytes only
pub fn raw_ws_frame(opcode: u8, payload: &[u8]) -> Vec<u8> {
    assert!(payload.len() < 126);
    let mask = [0x11u8, 0x22, 0x33, 0x44];
    let mut f = vec![0x80 | opcode, 0x80 | payload.len() as u8];
    f.extend_from_slice(&mask);
    f.extend(payload.iter().enumerate().map(|(i, b)| b ^ mask[i % 4]));
    f
}
