//! E1: one in-process nun-db node (the start-up sequence of src/bin/main.rs restated), client sessions.
use futures::channel::mpsc::{channel, Receiver, Sender};
use futures::task::noop_waker;
use nundb::bo::*;
use nundb::disk_ops;
use nundb::process_request::process_request;
use std::collections::BTreeMap;
use std::future::Future;
use std::panic::{catch_unwind, AssertUnwindSafe};
use std::pin::Pin;
use std::sync::atomic::Ordering;
use std::sync::Arc;
use std::task::{Context, Poll};

pub const USER: &str = "admin-user";
pub const PWD: &str = "admin-pwd";

pub struct Node {
    pub dbs: Arc<Databases>,
    pub dir: String,
    pub addr: String,
    rep_fut: Option<Pin<Box<dyn Future<Output = ()> + Send>>>,
    sup_fut: Option<Pin<Box<dyn Future<Output = ()> + Send>>>,
    pub rep_alive: bool,
    pub sup_alive: bool,
    /// what the start-up decision did with the op-log
    pub oplog_discarded_at_boot: bool,
}

pub fn use_dir(dir: &str) {
    nundb::verif::set_data_dir(Some(dir.to_string()));
}

impl Node {
    /// The start-up block of `start_db` in src/bin/main.rs, up to (not including) the network
    /// threads and the join/election thread.
    pub fn boot(dir: &str, addr: &str, process_id: u128) -> Node {
        use_dir(dir);
        std::fs::create_dir_all(dir).unwrap();
        let (replication_sender, replication_receiver): (Sender<String>, Receiver<String>) = channel(100);
        let (sup_sender, sup_receiver): (Sender<String>, Receiver<String>) = channel(100);
        // (kept in step with start_db in src/bin/main.rs; the thorough tier of C16 cross-checks the real binary)
        let is_oplog_valid = disk_ops::is_oplog_valid();
        let keys_map = if is_oplog_valid {
            disk_ops::load_keys_map_from_disk()
        } else {
            disk_ops::Oplog::clean_op_log_metadata_files();
            std::collections::HashMap::new()
        };
        let discarded = !is_oplog_valid;
        let is_oplog_valid = true;
        let dbs = Arc::new(Databases::new(
            USER.to_string(),
            PWD.to_string(),
            addr.to_string(),
            addr.to_string(),
            sup_sender,
            replication_sender,
            keys_map,
            process_id,
            is_oplog_valid,
        ));
        Databases::load_all_dbs(&dbs);
        let sup = nundb::replication_ops::start_replication_supervisor(sup_receiver, dbs.clone(), Arc::new(addr.to_string()));
        let rep = nundb::replication_ops::start_replication_thread(replication_receiver, dbs.clone());
        Node {
            dbs,
            dir: dir.to_string(),
            addr: addr.to_string(),
            rep_fut: Some(Box::pin(rep)),
            sup_fut: Some(Box::pin(sup)),
            rep_alive: true,
            sup_alive: true,
            oplog_discarded_at_boot: discarded,
        }
    }

    /// Boot + what a node without peers does after its start-up second: wins its own election.
    pub fn boot_single(dir: &str) -> Node {
        let mut n = Node::boot(dir, "127.0.0.1:3017", 1000);
        nundb::election_ops::start_election(&n.dbs);
        n.pump();
        n
    }

    /// hands the two service futures to the caller (to run them on a background thread)
    pub fn take_futures(&mut self) -> (Pin<Box<dyn Future<Output = ()> + Send>>, Pin<Box<dyn Future<Output = ()> + Send>>) {
        (self.rep_fut.take().unwrap(), self.sup_fut.take().unwrap())
    }

    pub fn pump_rep(&mut self) -> bool {
        use_dir(&self.dir);
        let waker = noop_waker();
        let mut cx = Context::from_waker(&waker);
        if let Some(f) = self.rep_fut.as_mut() {
            match catch_unwind(AssertUnwindSafe(|| f.as_mut().poll(&mut cx))) {
                Ok(Poll::Pending) => true,
                Ok(Poll::Ready(())) => {
                    self.rep_alive = false;
                    self.rep_fut = None;
                    false
                }
                Err(_) => {
                    self.rep_alive = false;
                    self.rep_fut = None;
                    false
                }
            }
        } else {
            false
        }
    }

    pub fn pump_sup(&mut self) -> bool {
        use_dir(&self.dir);
        let waker = noop_waker();
        let mut cx = Context::from_waker(&waker);
        if let Some(f) = self.sup_fut.as_mut() {
            match catch_unwind(AssertUnwindSafe(|| f.as_mut().poll(&mut cx))) {
                Ok(Poll::Pending) => true,
                Ok(Poll::Ready(())) => {
                    self.sup_alive = false;
                    self.sup_fut = None;
                    false
                }
                Err(_) => {
                    self.sup_alive = false;
                    self.sup_fut = None;
                    false
                }
            }
        } else {
            false
        }
    }

    /// Polls the two service futures until their queues are drained (a message processed by one can
    /// enqueue on the other, so two rounds).
    pub fn pump(&mut self) {
        for _ in 0..3 {
            self.pump_sup();
            self.pump_rep();
        }
    }

    /// What the declutter timer executes.
    pub fn snapshot_tick(&self) {
        use_dir(&self.dir);
        disk_ops::snapshot_all_pendding_dbs(&self.dbs);
    }

    /// SIGINT path.
    pub fn shutdown(&self) {
        use_dir(&self.dir);
        nundb::db_ops::safe_shutdown(&self.dbs);
    }

    pub fn role(&self) -> ClusterRole {
        self.dbs.get_role()
    }

    pub fn pending_ops(&self) -> usize {
        self.dbs.pending_opps.read().unwrap().len()
    }

    /// Full dump db -> key -> (value, version, deleted)
    pub fn dump(&self) -> BTreeMap<String, BTreeMap<String, (String, i32, bool)>> {
        let mut out = BTreeMap::new();
        let dbs = self.dbs.map.read().unwrap();
        for (name, db) in dbs.iter() {
            let mut m = BTreeMap::new();
            for (k, v) in db.map.read().unwrap().iter() {
                m.insert(k.clone(), (v.value.clone(), v.version, v.state == ValueStatus::Deleted));
            }
            out.insert(name.clone(), m);
        }
        out
    }

    /// one database of `dump` (servers that live for a whole campaign hold thousands of databases)
    pub fn dump_db(&self, name: &str) -> Option<BTreeMap<String, (String, i32, bool)>> {
        let dbs = self.dbs.map.read().unwrap();
        let db = dbs.get(name)?;
        let mut m = BTreeMap::new();
        for (k, v) in db.map.read().unwrap().iter() {
            m.insert(k.clone(), (v.value.clone(), v.version, v.state == ValueStatus::Deleted));
        }
        Some(m)
    }

    /// No RwLock / Mutex reachable from Databases is poisoned.
    pub fn poisoned(&self) -> Option<String> {
        let d = &self.dbs;
        if d.map.is_poisoned() {
            return Some("dbs.map".into());
        }
        if d.id_name_db_map.is_poisoned() {
            return Some("id_name_db_map".into());
        }
        if d.pending_opps.is_poisoned() {
            return Some("pending_opps".into());
        }
        if d.keys_map.is_poisoned() {
            return Some("keys_map".into());
        }
        if d.id_keys_map.is_poisoned() {
            return Some("id_keys_map".into());
        }
        if d.to_snapshot.is_poisoned() {
            return Some("to_snapshot".into());
        }
        if d.cluster_state.is_poisoned() {
            return Some("cluster_state".into());
        }
        if d.query_ema.is_poisoned() {
            return Some("query_ema".into());
        }
        if d.replication_ema.is_poisoned() {
            return Some("replication_ema".into());
        }
        if let Ok(cs) = d.cluster_state.lock() {
            if cs.members.is_poisoned() {
                return Some("cluster_state.members".into());
            }
        }
        if let Ok(map) = d.map.read() {
            for (name, db) in map.iter() {
                if db.map.is_poisoned() {
                    return Some(format!("db[{}].map", name));
                }
                if db.watchers.map.is_poisoned() {
                    return Some(format!("db[{}].watchers", name));
                }
                if db.connections.is_poisoned() {
                    return Some(format!("db[{}].connections", name));
                }
            }
        }
        None
    }
}

pub fn resp_kind(r: &Response) -> &'static str {
    match r {
        Response::Value { .. } => "value",
        Response::Ok {} => "ok",
        Response::Set { .. } => "set",
        Response::Error { .. } => "error",
        Response::VersionError { .. } => "version-error",
    }
}

pub fn is_refusal(r: &Response) -> bool {
    matches!(r, Response::Error { .. } | Response::VersionError { .. })
}

pub fn resp_text(r: &Response) -> String {
    match r {
        Response::Value { key, value, version } => format!("Value({},{},{})", key, value, version),
        Response::Ok {} => "Ok".to_string(),
        Response::Set { key, value } => format!("Set({},{})", key, value),
        Response::Error { msg } => format!("Error({})", msg),
        Response::VersionError { msg, key, old_version, version, .. } => format!("VersionError({},{},old={},new={})", msg, key, old_version, version),
    }
}

pub struct Session {
    pub client: Client,
    pub rx: Receiver<String>,
    pub open: bool,
}

impl Session {
    pub fn new() -> Session {
        let (client, rx) = Client::new_empty_and_receiver();
        Session { client, rx, open: true }
    }

    /// A replication-link client as `start_replication` builds it (authenticated, cluster member).
    pub fn link(local_addr: &str) -> Session {
        let s = Session::new();
        s.client.auth.store(true, Ordering::Relaxed);
        *s.client.cluster_member.lock().unwrap() = Some(ClusterMember { name: local_addr.to_string(), role: ClusterRole::Secoundary, sender: None });
        s
    }

    /// the client side of the channel goes away without any clean-up command
    pub fn kill_receiver(&mut self) {
        self.rx.close();
    }

    pub fn drain(&mut self) -> Vec<String> {
        let mut out = vec![];
        while let Ok(Some(m)) = self.rx.try_next() {
            out.push(m);
        }
        out
    }

    /// one command: response + the messages it pushed on the client's channel
    pub fn send(&mut self, node: &Node, line: &str) -> (Response, Vec<String>) {
        use_dir(&node.dir);
        let r = process_request(line, &node.dbs, &mut self.client);
        (r, self.drain())
    }

    /// same under catch_unwind; Err(panic message)
    pub fn send_caught(&mut self, node: &Node, line: &str) -> Result<(Response, Vec<String>), String> {
        use_dir(&node.dir);
        let dbs = node.dbs.clone();
        let client = &mut self.client;
        let r = catch_unwind(AssertUnwindSafe(|| process_request(line, &dbs, client)));
        match r {
            Ok(r) => Ok((r, self.drain())),
            Err(e) => Err(panic_text(e)),
        }
    }

    pub fn auth(&mut self, node: &Node) {
        self.send(node, &format!("auth {} {}", USER, PWD));
    }

    /// What all three transports do when the connection ends (common tail of tcp_ops::handle_client,
    /// http_ops::process_commands and ws_ops::on_close) for a session that is not a cluster link.
    pub fn disconnect(&mut self, node: &Node) -> Result<(), String> {
        use_dir(&node.dir);
        self.open = false;
        let dbs = node.dbs.clone();
        let client = &mut self.client;
        catch_unwind(AssertUnwindSafe(|| {
            process_request("unwatch-all", &dbs, client);
            client.left(&dbs);
        }))
        .map_err(panic_text)
    }
}

pub fn panic_text(e: Box<dyn std::any::Any + Send>) -> String {
    if let Some(s) = e.downcast_ref::<&str>() {
        s.to_string()
    } else if let Some(s) = e.downcast_ref::<String>() {
        s.clone()
    } else {
        "panic (non-string payload)".to_string()
    }
}

/// Silences the default panic hook output for panics that the harness catches on purpose.
pub fn quiet_panics() {
    std::panic::set_hook(Box::new(|info| {
        if std::env::var("NV_SHOW_PANICS").is_ok() {
            eprintln!("[panic] {}", info);
        }
    }));
}

/// last location of a caught panic (file:line) — recorded by `record_panic_locations`
pub static LAST_PANIC_LOC: std::sync::Mutex<String> = std::sync::Mutex::new(String::new());

pub fn record_panic_locations() {
    std::panic::set_hook(Box::new(|info| {
        let loc = info.location().map(|l| format!("{}:{}", l.file(), l.line())).unwrap_or_default();
        if let Ok(mut g) = LAST_PANIC_LOC.lock() {
            *g = loc;
        }
        if let Ok(mut g) = LAST_PANIC_MSG.lock() {
            let p = info.payload();
            *g = p.downcast_ref::<&str>().map(|s| s.to_string()).or_else(|| p.downcast_ref::<String>().cloned()).unwrap_or_default();
        }
        if std::env::var("NV_SHOW_PANICS").is_ok() {
            eprintln!("[panic] {}", info);
        }
    }));
}

static LAST_PANIC_MSG: std::sync::Mutex<String> = std::sync::Mutex::new(String::new());

pub fn last_panic_msg() -> String {
    LAST_PANIC_MSG.lock().map(|g| g.clone()).unwrap_or_default()
}

pub fn last_panic_loc() -> String {
    LAST_PANIC_LOC.lock().map(|g| g.clone()).unwrap_or_default()
}

/// Address-space cap for this process: a corrupted length field read from disk must end in a failed
/// allocation (seen as a crashed probe child), not in the machine's OOM killer.
pub fn cap_memory(bytes: u64) {
    unsafe {
        let lim = libc::rlimit { rlim_cur: bytes, rlim_max: bytes };
        libc::setrlimit(libc::RLIMIT_AS, &lim);
    }
}

/// Boots `dir` in a forked child (memory-capped, 30 s alarm) to find out whether the start-up
/// sequence survives this directory: Ok(()) or Err(description). The caller's process must be
/// single-threaded at this point (the workers are).
/// set by engines whose process has helper threads (S3 stub, tokio): forking is not safe there
pub static SKIP_PROBE: std::sync::atomic::AtomicBool = std::sync::atomic::AtomicBool::new(false);

pub fn probe_boot(dir: &str) -> Result<(), String> {
    if SKIP_PROBE.load(Ordering::SeqCst) {
        return Ok(());
    }
    // the probe works on a copy: starting a node changes its directory (an invalid op-log is cleaned, ...)
    let copy = format!("{}-probe", dir.trim_end_matches('/'));
    let _ = std::fs::remove_dir_all(&copy);
    crate::crash::copy_dir(std::path::Path::new(dir), std::path::Path::new(&copy));
    let r = probe_boot_in_place(&copy);
    let _ = std::fs::remove_dir_all(&copy);
    r
}

fn probe_boot_in_place(dir: &str) -> Result<(), String> {
    unsafe {
        let pid = libc::fork();
        if pid < 0 {
            return Err("fork failed".to_string());
        }
        if pid == 0 {
            // (the child has a copy of the crash recorder's state: it must not write images of its own)
            crate::interpose::set_file_hook(None);
            cap_memory(3 << 30);
            libc::alarm(30);
            let d = dir.to_string();
            let r = catch_unwind(AssertUnwindSafe(|| {
                let mut n = Node::boot_single(&d);
                n.pump();
            }));
            libc::_exit(if r.is_ok() { 0 } else { 3 });
        }
        let mut status: libc::c_int = 0;
        libc::waitpid(pid, &mut status, 0);
        if libc::WIFEXITED(status) {
            match libc::WEXITSTATUS(status) {
                0 => Ok(()),
                3 => Err("panic during start-up".to_string()),
                c => Err(format!("start-up exited with status {}", c)),
            }
        } else if libc::WIFSIGNALED(status) {
            let sig = libc::WTERMSIG(status);
            Err(match sig {
                libc::SIGABRT => "start-up aborted (allocation failure or abort)".to_string(),
                libc::SIGALRM => "start-up did not finish within 30 s".to_string(),
                s => format!("start-up killed by signal {}", s),
            })
        } else {
            Err("start-up ended abnormally".to_string())
        }
    }
}
