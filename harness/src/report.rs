//! Worker report, context, known-findings plumbing and the generic proptest driver.
use proptest::strategy::{Strategy, ValueTree};
use proptest::test_runner::{Config, RngAlgorithm, RngSeed, TestCaseError, TestError, TestRng, TestRunner};
use serde::{de::DeserializeOwned, Deserialize, Serialize};
use serde_json::Value as J;
use std::cell::{Cell, RefCell};
use std::collections::hash_map::DefaultHasher;
use std::collections::{BTreeMap, BTreeSet};
use std::hash::{Hash, Hasher};
use std::path::PathBuf;

#[derive(Clone, Copy, PartialEq, Debug)]
pub enum Tier {
    Quick,
    Thorough,
}

#[derive(Serialize, Deserialize, Clone, Debug)]
pub struct Failure {
    /// signature: failure kind + the structural facts that identify the defect
    pub sig: String,
    pub detail: String,
    /// sub-check ("engine") inside the property's check that produced it
    pub engine: String,
    pub case: J,
    /// NUN_* environment of the worker (configuration is read once per process by nun-db)
    #[serde(default)]
    pub env: BTreeMap<String, String>,
}

pub fn nun_env() -> BTreeMap<String, String> {
    std::env::vars().filter(|(k, _)| k.starts_with("NUN_") && k != "NUN_DBS_DIR" && k != "NUN_S3_API_URL" && k != "NUN_S3_RETRY").collect()
}

#[derive(Serialize, Deserialize, Default, Debug)]
pub struct Report {
    pub property: String,
    pub tier: String,
    pub seed: u64,
    pub worker: u32,
    pub evaluations: u64,
    pub nontrivial: BTreeSet<u64>,
    pub samples: Vec<J>,
    pub largest_sample: Option<(usize, J)>,
    pub classes: BTreeMap<String, u64>,
    pub counters: BTreeMap<String, u64>,
    pub excluded_known: BTreeMap<String, u64>,
    /// first case (and engine) that hit each listed signature
    #[serde(default)]
    pub known_examples: BTreeMap<String, (String, J)>,
    pub known_reproduced: Vec<String>,
    pub failures: Vec<Failure>,
    pub exhaustive: Vec<String>,
    pub inconclusive: Vec<String>,
    pub notes: Vec<String>,
    pub wall_s: f64,
}

impl Report {
    pub fn count(&mut self, k: &str, n: u64) {
        *self.counters.entry(k.to_string()).or_insert(0) += n;
    }
    pub fn class(&mut self, k: &str) {
        *self.classes.entry(k.to_string()).or_insert(0) += 1;
    }
}

#[derive(Deserialize, Clone, Debug)]
pub struct Known {
    #[serde(default)]
    pub status: String,
    #[serde(default)]
    pub property: String,
    pub id: String,
    pub sig: String,
    pub what: String,
    #[serde(default)]
    pub engine: String,
    #[serde(default)]
    pub probe: J,
    #[serde(default)]
    pub env: BTreeMap<String, String>,
    #[serde(default)]
    pub commit: String,
}

/// known-findings.txt: `known: property=<id> <json>` and `fixed: property=<id> <commit> <what>` lines
pub fn parse_known(text: &str) -> Vec<Known> {
    let mut out = vec![];
    for line in text.lines() {
        let line = line.trim();
        if let Some(rest) = line.strip_prefix("known: property=") {
            let (prop, json) = rest.split_once(' ').unwrap_or_else(|| panic!("bad known line: {}", line));
            let mut k: Known = serde_json::from_str(json).unwrap_or_else(|e| panic!("bad known line {}: {}", line, e));
            k.property = prop.to_string();
            k.status = "known".to_string();
            out.push(k);
        }
    }
    out
}

pub struct Ctx {
    pub property: String,
    pub tier: Tier,
    pub seed: u64,
    pub worker: u32,
    pub workers: u32,
    pub known: Vec<Known>,
    pub scratch: PathBuf,
    case_no: Cell<u64>,
}

impl Ctx {
    pub fn new(property: &str, tier: Tier, seed: u64, worker: u32, workers: u32, known: Vec<Known>) -> Ctx {
        let base = if std::path::Path::new("/dev/shm").is_dir() { "/dev/shm" } else { "/tmp" };
        let scratch = PathBuf::from(format!("{}/nv-{}-{}", base, property, std::process::id()));
        let _ = std::fs::remove_dir_all(&scratch);
        std::fs::create_dir_all(&scratch).unwrap();
        Ctx { property: property.to_string(), tier, seed, worker, workers, known, scratch, case_no: Cell::new(0) }
    }
    pub fn quick(&self) -> bool {
        self.tier == Tier::Quick
    }
    /// picks the quick or the thorough amount
    pub fn amount(&self, quick: u32, thorough: u32) -> u32 {
        if self.quick() {
            quick
        } else if thorough >= 1000 {
            // case counts of the thorough tier are multiplied by the property's `thorough_scale` (meta.json, handed over
            // by the driver); small numbers are lengths of exhaustive families and stay as they are
            let scale: u32 = std::env::var("NV_THOROUGH_SCALE").ok().and_then(|s| s.parse().ok()).unwrap_or(1);
            thorough.saturating_mul(scale.max(1))
        } else {
            thorough
        }
    }
    /// this worker's share of `total` cases
    pub fn share(&self, total: u32) -> u32 {
        let w = self.workers.max(1);
        let base = total / w;
        let extra = if self.worker < total % w { 1 } else { 0 };
        base + extra
    }
    pub fn is_known(&self, sig: &str) -> bool {
        // development aid: list every signature a search produces instead of stopping at the first
        if std::env::var("NV_COLLECT_SIGS").is_ok() {
            return true;
        }
        self.known.iter().any(|k| k.status == "known" && k.property == self.property && k.sig == sig)
    }
    /// fresh directory for one case (caller removes it through `drop_dir`)
    pub fn fresh_dir(&self) -> String {
        let n = self.case_no.get();
        self.case_no.set(n + 1);
        let d = self.scratch.join(format!("c{}", n));
        let _ = std::fs::remove_dir_all(&d);
        std::fs::create_dir_all(&d).unwrap();
        d.to_str().unwrap().to_string()
    }
    pub fn drop_dir(&self, d: &str) {
        let _ = std::fs::remove_dir_all(d);
    }
    pub fn sub_seed(&self, name: &str) -> u64 {
        let mut h = DefaultHasher::new();
        (self.seed, self.worker, name).hash(&mut h);
        h.finish()
    }
}

impl Drop for Ctx {
    fn drop(&mut self) {
        let _ = std::fs::remove_dir_all(&self.scratch);
    }
}

#[derive(Default, Debug)]
pub struct Outcome {
    pub nontrivial: bool,
    pub classes: Vec<&'static str>,
    pub counters: Vec<(&'static str, u64)>,
    pub fail: Option<(String, String)>,
    /// sub-cases (e.g. crash images) that hit a listed known finding and were excluded, by signature
    pub known_image_hits: BTreeMap<String, u64>,
}

impl Outcome {
    pub fn ok(nontrivial: bool) -> Outcome {
        Outcome { nontrivial, ..Default::default() }
    }
    pub fn failed(sig: impl Into<String>, detail: impl Into<String>) -> Outcome {
        Outcome { fail: Some((sig.into(), detail.into())), ..Default::default() }
    }
    pub fn with_fail(mut self, sig: impl Into<String>, detail: impl Into<String>) -> Outcome {
        if self.fail.is_none() {
            self.fail = Some((sig.into(), detail.into()));
        }
        self
    }
    pub fn class(mut self, c: &'static str) -> Outcome {
        self.classes.push(c);
        self
    }
}

pub fn hash_json<T: Serialize>(t: &T) -> u64 {
    let s = serde_json::to_string(t).unwrap();
    let mut h = DefaultHasher::new();
    s.hash(&mut h);
    h.finish()
}

fn record<C: Serialize>(rep: &mut Report, engine: &str, case: &C, out: &Outcome) {
    rep.evaluations += 1;
    for c in &out.classes {
        rep.class(c);
    }
    for (k, n) in &out.counters {
        rep.count(k, *n);
    }
    for (k, n) in &out.known_image_hits {
        *rep.excluded_known.entry(k.clone()).or_insert(0) += n;
        if !rep.known_examples.contains_key(k) {
            rep.known_examples.insert(k.clone(), (engine.to_string(), serde_json::to_value(case).unwrap()));
        }
    }
    if out.nontrivial {
        let j = serde_json::to_value(case).unwrap();
        let h = hash_json(&j);
        if rep.nontrivial.insert(h) {
            let size = j.to_string().len();
            if rep.samples.len() < 3 {
                rep.samples.push(j.clone());
            }
            let bigger = rep.largest_sample.as_ref().map(|(s, _)| size > *s).unwrap_or(true);
            if bigger && size < 6000 {
                rep.largest_sample = Some((size, j));
            }
        }
    }
}

/// Runs one case; a panic that escapes the case (i.e. one the property's own oracle did not expect
/// and catch) is itself a failure of the property: nun-db panicked while serving a legitimate call.
pub fn guarded<C>(ctx: &Ctx, f: &dyn Fn(&C) -> Outcome, case: &C) -> Outcome {
    match std::panic::catch_unwind(std::panic::AssertUnwindSafe(|| f(case))) {
        Ok(o) => o,
        Err(e) => {
            let msg = crate::node::panic_text(e);
            let loc = crate::node::last_panic_loc();
            let file = loc.rsplit('/').next().unwrap_or("").split(':').next().unwrap_or("").to_string();
            let short: String = msg.chars().take(48).collect();
            Outcome::failed(format!("{}|panic|{}|{}", ctx.property, file, short), format!("panic at {}: {}", loc, msg))
        }
    }
}

/// Evaluates one case through the known-findings filter. Returns Some(fail) for an unlisted failure.
fn eval_filtered<C: Serialize>(
    ctx: &Ctx,
    rep: &RefCell<&mut Report>,
    engine: &str,
    case: &C,
    f: &dyn Fn(&C) -> Outcome,
    count: bool,
) -> Option<(String, String)> {
    if std::env::var("NV_TRACE_CASES").is_ok() {
        // (investigation aid: the last line printed before an abort names the case)
        eprintln!("case[{}]: {}", engine, serde_json::to_string(case).unwrap_or_default());
    }
    let out = guarded(ctx, f, case);
    if let Some((sig, detail)) = &out.fail {
        if ctx.is_known(sig) {
            if count {
                let mut r = rep.borrow_mut();
                r.evaluations += 1;
                *r.excluded_known.entry(sig.clone()).or_insert(0) += 1;
                if !r.known_examples.contains_key(sig) {
                    r.known_examples.insert(sig.clone(), (engine.to_string(), serde_json::to_value(case).unwrap()));
                }
            }
            return None;
        }
        return Some((sig.clone(), detail.clone()));
    }
    if count {
        record(&mut rep.borrow_mut(), engine, case, &out);
    }
    None
}

/// Random exploration with proptest: `cases` generated cases (this worker's share), shrinking on failure.
pub fn explore<C, S>(ctx: &Ctx, rep: &mut Report, engine: &str, total_cases: u32, strat: S, f: impl Fn(&C) -> Outcome)
where
    C: std::fmt::Debug + Serialize + Clone,
    S: Strategy<Value = C>,
{
    explore_with(ctx, rep, engine, total_cases, 3000, strat, f)
}

/// `explore` with an explicit bound on shrink iterations (for expensive cases)
pub fn explore_with<C, S>(ctx: &Ctx, rep: &mut Report, engine: &str, total_cases: u32, max_shrink_iters: u32, strat: S, f: impl Fn(&C) -> Outcome)
where
    C: std::fmt::Debug + Serialize + Clone,
    S: Strategy<Value = C>,
{
    let cases = ctx.share(total_cases);
    if cases == 0 {
        return;
    }
    let seed = ctx.sub_seed(engine);
    let config = Config {
        cases,
        failure_persistence: None,
        rng_seed: RngSeed::Fixed(seed),
        max_shrink_iters,
        max_global_rejects: 1_000_000,
        ..Config::default()
    };
    let mut runner = TestRunner::new(config);
    let failed = Cell::new(false);
    let first: RefCell<Option<(C, String, String)>> = RefCell::new(None);
    let repc = RefCell::new(rep);
    let result = runner.run(&strat, |case| {
        let counting = !failed.get();
        match eval_filtered(ctx, &repc, engine, &case, &f, counting) {
            None => Ok(()),
            Some((sig, detail)) => {
                if !failed.get() {
                    *first.borrow_mut() = Some((case.clone(), sig.clone(), detail));
                }
                failed.set(true);
                Err(TestCaseError::fail(sig))
            }
        }
    });
    let rep = repc.into_inner();
    match result {
        Ok(()) => {}
        Err(TestError::Fail(_reason, minimal)) => {
            // re-evaluate the shrunk case to get its own signature/detail
            let out = guarded(ctx, &f, &minimal);
            match out.fail {
                Some((sig, detail)) => rep.failures.push(Failure { sig, detail, engine: engine.to_string(), case: serde_json::to_value(&minimal).unwrap(), env: nun_env() }),
                None => {
                    // the shrunk case passes: is the case that failed first reproducible at all?
                    let (orig, osig, odetail) = first.into_inner().expect("a failure was recorded");
                    let again = guarded(ctx, &f, &orig);
                    match again.fail {
                        Some((sig, detail)) => rep.failures.push(Failure { sig, detail, engine: engine.to_string(), case: serde_json::to_value(&orig).unwrap(), env: nun_env() }),
                        None => rep.inconclusive.push(format!("{}: a failure did not reproduce when its case (shrunk and original) was run again, so it is not reported as a violation: {} :: {} :: case {}", engine, osig, odetail.chars().take(600).collect::<String>(), serde_json::to_string(&orig).unwrap_or_default().chars().take(600).collect::<String>())),
                    }
                }
            }
        }
        Err(TestError::Abort(reason)) => {
            rep.inconclusive.push(format!("{}: proptest aborted: {}", engine, reason));
        }
    }
}

/// Exhaustive enumeration of an explicit finite list of cases (smallest first). Stops at the first unlisted failure.
pub fn enumerate<C>(ctx: &Ctx, rep: &mut Report, engine: &str, cases: impl Iterator<Item = C>, f: impl Fn(&C) -> Outcome) -> bool
where
    C: Serialize,
{
    let repc = RefCell::new(rep);
    let mut i: u64 = 0;
    let mut done: u64 = 0;
    // workers are started with a cycle of configurations (NV_ENV_CONFIGS of them, worker i has configuration i mod that):
    // the cases are sliced over the workers of ONE configuration, every configuration sees them all
    let groups: u64 = std::env::var("NV_ENV_CONFIGS").ok().and_then(|s| s.parse().ok()).unwrap_or(1).max(1);
    let w = (ctx.workers.max(1) as u64 / groups).max(1);
    let me = ctx.worker as u64 / groups;
    let mut clean = true;
    for case in cases {
        let mine = me < w && i % w == me;
        i += 1;
        if !mine {
            continue;
        }
        done += 1;
        if let Some((sig, detail)) = eval_filtered(ctx, &repc, engine, &case, &f, true) {
            repc.borrow_mut().failures.push(Failure { sig, detail, engine: engine.to_string(), case: serde_json::to_value(&case).unwrap(), env: nun_env() });
            clean = false;
            break;
        }
    }
    let rep = repc.into_inner();
    if clean {
        rep.exhaustive.push(engine.to_string());
    }
    // cases evaluated by THIS worker: the driver sums the workers' counters, the sum is the size of the sub-space
    rep.count(&format!("enumerated.{}", engine), done);
    clean
}

/// Replays one stored case (strict: no known-finding filter). Returns the failure, if any.
pub fn replay_case<C: DeserializeOwned>(case: &J, f: impl Fn(&C) -> Outcome) -> Result<Option<(String, String)>, String> {
    let c: C = serde_json::from_value(case.clone()).map_err(|e| format!("cannot decode case: {}", e))?;
    Ok(f(&c).fail)
}

/// like replay_case but a panic escaping the case is reported as the failure
pub fn replay_guarded<C: DeserializeOwned>(ctx: &Ctx, case: &J, f: impl Fn(&C) -> Outcome) -> Result<Option<(String, String)>, String> {
    let c: C = serde_json::from_value(case.clone()).map_err(|e| format!("cannot decode case: {}", e))?;
    Ok(guarded(ctx, &f, &c).fail)
}

/// Draws one value from a strategy with the given seed (for fixed families built from generators).
pub fn sample_one<S: Strategy>(strat: &S, seed: u64) -> S::Value {
    let mut seed_bytes = [0u8; 32];
    seed_bytes[..8].copy_from_slice(&seed.to_le_bytes());
    let rng = TestRng::from_seed(RngAlgorithm::ChaCha, &seed_bytes);
    let mut runner = TestRunner::new_with_rng(Config::default(), rng);
    strat.new_tree(&mut runner).unwrap().current()
}

/// monotone index map (shrinks toward the first element)
pub fn pick<T: Clone>(items: &[T], c: u16) -> T {
    let i = (c as usize * items.len()) >> 16;
    items[i.min(items.len() - 1)].clone()
}
