//! Reference model: a database is a plain ordered map. It knows nothing about
//! New/Ok/Updated/Deleted, disk offsets or tombstones.
use std::collections::BTreeMap;

pub const KEYS: &[&str] = &["a", "b", "ab", "a1", "ké", "$$secret"];
pub const PLAIN_KEYS: &[&str] = &["a", "b", "ab", "a1", "ké"];
pub const VALUES: &[&str] = &["x", "7", "", "two words", "-3", "7 up", "é✓", "<Empty>", "41", "2147483646", "-2147483648"];
pub const PATTERNS: &[&str] = &["a*", "*b", "b", "", "*", "$$*", "*1", "k"];
pub const INCS: &[i32] = &[1, -1, 5, 100, 0];

#[derive(Clone, Debug, PartialEq)]
pub struct Db {
    pub live: BTreeMap<String, String>,
}

/// the documented reply lines
pub fn value_line(v: &str) -> String {
    format!("value {}\n", v)
}
pub fn value_version_line(ver: i32, v: &str) -> String {
    format!("value-version {} {}\n", ver, v)
}
pub fn keys_line(keys: &[String]) -> String {
    format!("keys {}\n", keys_value(keys))
}
pub fn keys_value(keys: &[String]) -> String {
    keys.iter().fold(String::new(), |acc, k| format!("{},{}", acc, k))
}

pub fn pattern_matches(key: &str, pattern: &str) -> bool {
    // the three documented forms: prefix*, *suffix, contains
    if pattern.ends_with('*') {
        key.starts_with(&pattern.replace('*', ""))
    } else if pattern.starts_with('*') {
        key.ends_with(&pattern.replace('*', ""))
    } else {
        key.contains(pattern)
    }
}

impl Db {
    pub fn new() -> Db {
        Db { live: BTreeMap::new() }
    }
    pub fn get(&self, k: &str) -> String {
        self.live.get(k).cloned().unwrap_or_else(|| "<Empty>".to_string())
    }
    pub fn set(&mut self, k: &str, v: &str) {
        self.live.insert(k.to_string(), v.to_string());
    }
    pub fn remove(&mut self, k: &str) {
        self.live.remove(k);
    }
    /// Ok(new value) or Err(()) = must be refused without change
    pub fn increment(&mut self, k: &str, n: i32) -> Result<String, ()> {
        let cur: i32 = match self.live.get(k) {
            None => 0,
            Some(v) => v.parse::<i32>().map_err(|_| ())?,
        };
        let next = cur.checked_add(n).ok_or(())?;
        self.live.insert(k.to_string(), next.to_string());
        Ok(next.to_string())
    }
    pub fn keys(&self, pattern: &str, admin: bool) -> Vec<String> {
        self.live.keys().filter(|k| (admin || !k.starts_with("$$")) && pattern_matches(k, pattern)).cloned().collect()
    }
}
