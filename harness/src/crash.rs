//! E4: crash images with kill -9 semantics at syscall granularity. While a recording is active,
//! BEFORE every mutating syscall (write, pwrite, rename, unlink, ftruncate, open with
//! O_CREAT/O_TRUNC) that targets the data directory, the directory is copied aside: each copy is
//! exactly what a process killed at that instant leaves behind (user-space buffers are not in it).
use std::path::Path;
use std::sync::Mutex;

#[derive(Clone, Debug)]
pub struct Image {
    pub dir: String,
    /// the syscall that was about to run: "write d-nun.data.keys 21B"
    pub label: String,
    pub index: usize,
}

struct Rec {
    dir: String,
    root: String,
    images: Vec<Image>,
    limit: usize,
}

static REC: Mutex<Option<Rec>> = Mutex::new(None);

pub fn copy_dir(from: &Path, to: &Path) {
    std::fs::create_dir_all(to).unwrap();
    if let Ok(rd) = std::fs::read_dir(from) {
        for e in rd.flatten() {
            let p = e.path();
            let dest = to.join(e.file_name());
            if p.is_dir() {
                copy_dir(&p, &dest);
            } else {
                let _ = std::fs::copy(&p, &dest);
            }
        }
    }
}

fn short_name(path: &str, dir: &str) -> String {
    path.strip_prefix(dir).unwrap_or(path).trim_start_matches('/').to_string()
}

fn on_event(op: &str, path: &str, detail: &str) {
    let mut g = match REC.try_lock() {
        Ok(g) => g,
        Err(_) => return,
    };
    if let Some(rec) = g.as_mut() {
        let other = if op == "rename" { detail } else { "" };
        if !(path.starts_with(&rec.dir) || (!other.is_empty() && other.starts_with(&rec.dir))) {
            return;
        }
        if rec.images.len() >= rec.limit {
            return;
        }
        let n = rec.images.len();
        let to = format!("{}/img{}", rec.root, n);
        let _ = std::fs::remove_dir_all(&to);
        copy_dir(Path::new(&rec.dir), Path::new(&to));
        let label = if op == "rename" { format!("rename {} -> {}", short_name(path, &rec.dir), short_name(detail, &rec.dir)) } else { format!("{} {} {}", op, short_name(path, &rec.dir), detail) };
        rec.images.push(Image { dir: to, label, index: n });
    }
}

/// Runs `f` while recording crash images of `dir` under `root`; returns them in order.
pub fn record<T>(dir: &str, root: &str, limit: usize, f: impl FnOnce() -> T) -> (T, Vec<Image>) {
    let _ = std::fs::remove_dir_all(root);
    std::fs::create_dir_all(root).unwrap();
    *REC.lock().unwrap() = Some(Rec { dir: dir.to_string(), root: root.to_string(), images: vec![], limit });
    crate::interpose::set_file_hook(Some(on_event));
    let out = f();
    crate::interpose::set_file_hook(None);
    let rec = REC.lock().unwrap().take().unwrap();
    (out, rec.images)
}

/// classification of a syscall label for signatures: which file family, which operation
pub fn label_class(label: &str) -> String {
    let mut it = label.split(' ');
    let op = it.next().unwrap_or("");
    let file = it.next().unwrap_or("");
    let fam = if file.ends_with(".keys.old") {
        "keys.old"
    } else if file.ends_with("-nun.data.keys") {
        "db.keys"
    } else if file.ends_with(".values.old") {
        "values.old"
    } else if file.ends_with("-nun.data.values") {
        "db.values"
    } else if file.ends_with("-nun.madadata") {
        "db.metadata"
    } else if file == "keys-nun.keys" {
        "key-map"
    } else if file == "is-oplog.valid" {
        "oplog-valid-flag"
    } else if file.contains("oplog") {
        "oplog"
    } else {
        "other"
    };
    format!("{}:{}", op, fam)
}
