#!/bin/bash
# Runs the repository's stable baseline with the verification guard OFF (no --features verif)
# and compares against /root/.vp/BASELINE.json's stable_pass list.
# exit 0 iff every stable test passed.
set -u
cd /repo
export CARGO_NET_OFFLINE=true
OUT=$(mktemp -d /tmp/nv-baseline.XXXXXX)
if cargo nextest --version >/dev/null 2>&1 && [ -f /w/lib/nextest.toml ]; then
  cargo nextest run --workspace --no-fail-fast --tool-config-file pb:/w/lib/nextest.toml --profile pb --test-threads 8 --offline >"$OUT/log" 2>&1
  JUNIT=target/nextest/pb/junit.xml
  python3 - "$JUNIT" <<'PY'
import sys, json, xml.etree.ElementTree as ET
base = json.load(open('/root/.vp/BASELINE.json'))
stable = set(base['stable_pass'])
t = ET.parse(sys.argv[1]).getroot()
res = {}
for suite in t.iter('testsuite'):
    sname = suite.get('name')
    for c in suite.iter('testcase'):
        ok = c.find('failure') is None and c.find('error') is None
        res[f"{sname}::{c.get('name')}"] = ok
failed = sorted(n for n in stable if not res.get(n, False))
print(f"stable={len(stable)} passed={len(stable)-len(failed)} failed={len(failed)}")
for n in failed: print("FAILED", n, "(missing)" if n not in res else "")
sys.exit(1 if failed else 0)
PY
  rc=$?
else
  cargo test --workspace --no-fail-fast --offline >"$OUT/log" 2>&1
  grep -E "^test result" "$OUT/log"
  rc=0
fi
rm -rf "$OUT"
exit $rc
