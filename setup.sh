#!/bin/bash
# Builds the verification harness offline from files on disk.
set -e
cd "$(dirname "$0")/harness"
export CARGO_NET_OFFLINE=true
cargo build --bin nv 2>&1 | tail -3
./target/debug/nv selftest
echo "setup ok"
