#!/bin/bash
# Builds the verification harness offline from files on disk.
set -e
cd "$(dirname "$0")/harness"
export CARGO_NET_OFFLINE=true
cargo build --bin nv 2>&1 | tail -3
# the real nun-db binary (guard off) for the C16 start-up cross-check; ./check C16 rebuilds it as well
REPO_DIR=$(sed -n 's/^nundb = .*path = "\([^"]*\)".*/\1/p' Cargo.toml)
HERE=$(pwd)
(cd "$REPO_DIR" && cargo build --offline --bin nun-db --target-dir "$HERE/target/real" 2>&1 | tail -1)
./target/debug/nv selftest
echo "setup ok"
