#!/usr/bin/env python3-vt
import json, jsonschema, glob, sys
jsonschema.validate(json.load(open('/verif/MANIFEST.json')), json.load(open('/root/.vp/MANIFEST.schema.json')))
sch = json.load(open('/root/.vp/EVIDENCE.schema.json'))
bad = 0
for f in sorted(glob.glob('/verif/evidence/*.json')):
    try:
        jsonschema.validate(json.load(open(f)), sch)
    except Exception as e:
        print("INVALID", f, str(e)[:300]); bad += 1
print("manifest valid; evidence files:", len(glob.glob('/verif/evidence/*.json')), "invalid:", bad)
sys.exit(1 if bad else 0)
