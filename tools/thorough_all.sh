#!/bin/bash
# tools/thorough_all.sh [property...]  runs the thorough tier of the given (default: all) properties one after the other
# and prints one summary line each; meant for `vp run --timeout 12h -- tools/thorough_all.sh`
cd "$(dirname "$0")/.."
PROPS="$@"
[ -z "$PROPS" ] && PROPS="C01 C02 C03 C04 C05 C06 C07 C08 C09 C11 C13 C14 C15 C16 C17 C18 C19 C20 C12 C10"
for p in $PROPS; do
  t0=$(date +%s)
  out=$(./check $p --tier thorough 2>&1); rc=$?
  echo "THOROUGH $p exit=$rc $(( $(date +%s) - t0 ))s known=$(echo "$out" | grep -c KNOWN-FINDING) :: $(echo "$out" | grep -E 'VIOLATION|inconclusive|broken|^check: C[0-9]+\|' | head -6 | cut -c1-400 | tr '\n' ' ') :: $(echo "$out" | tail -1)"
done
