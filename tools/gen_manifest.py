#!/usr/bin/env python3
"""Generates /verif/MANIFEST.json from meta.json (claimed properties) and properties.jsonl."""
import json, os, subprocess
ROOT = os.path.dirname(os.path.dirname(os.path.abspath(__file__)))
meta = json.load(open(os.path.join(ROOT, "meta.json")))
props = [json.loads(l) for l in open(os.path.join(ROOT, "properties.jsonl"))]
hook_commits = subprocess.run(["git", "-C", "/repo", "log", "--format=%h %s", "--grep=^verif hook"], stdout=subprocess.PIPE, text=True).stdout.strip().split("\n")
checks, na = [], []
for p in props:
    pid = p["id"]
    m = meta.get(pid)
    if not m or m.get("not_applicable"):
        na.append({"property_id": pid, "reason": (m or {}).get("not_applicable", "check not built yet (work in progress, see DESIGN.md §6)")})
        continue
    checks.append({
        "property_id": pid,
        "quick_cmd": "./check %s --tier quick" % pid,
        "thorough_cmd": "./check %s --tier thorough" % pid,
        "evidence_file": "/verif/evidence/%s.json" % pid,
        "replay_cmd_template": "./check %s --replay {path}" % pid,
        "engine": m.get("engine", "nv"),
        "level_claimed": {"category": m["level"], "text": m["level_text"], "design_ref": m.get("design_ref", "DESIGN.md §3")},
        "level_note": m["level_note"],
        "technique": m["technique"],
    })
manifest = {
    "version": 1,
    "setup_cmd": "./setup.sh",
    "hooks": {
        "guard": "cargo feature `verif` of the nun-db crate (off by default)",
        "enable": "the harness crate depends on nun-db with features=[\"verif\"] (path dependency on /repo), so every check rebuilds /repo's working tree with the hooks on",
        "baseline_off_cmd": "./baseline_off.sh",
        "source_commits": [c.split(" ")[0] for c in hook_commits if c],
        "add_only": True,
    },
    "engines": [
        {"name": "nv", "path": "/verif/harness", "serves_properties": [c["property_id"] for c in checks], "kind_free_text": "Rust harness: in-process nun-db nodes driven through process_request, proptest generators with shrinking, reference models, baton scheduler, cluster simulator, crash-image recorder, S3 stub"},
        {"name": "check", "path": "/verif/check", "serves_properties": [c["property_id"] for c in checks], "kind_free_text": "Python driver: rebuild, self-test, fan out worker processes, merge reports, known-findings, evidence"},
    ],
    "checks": checks,
    "not_applicable": na,
    "notes": "Technique family: property-based testing and fuzzing. See DESIGN.md. known-findings.txt lists recorded defects (known:) and repaired ones (fixed:).",
}
json.dump(manifest, open(os.path.join(ROOT, "MANIFEST.json"), "w"), indent=1)
print("claimed:", [c["property_id"] for c in checks])
