#!/usr/bin/env python3
"""tools/add_known.py <replay file> <id> <what fails>  -> appends a 'known:' line to known-findings.txt"""
import json, sys
r = json.load(open(sys.argv[1]))
e = {"id": sys.argv[2], "sig": r["sig"], "engine": r["engine"], "what": sys.argv[3], "env": r.get("env", {}), "probe": r["case"]}
open('/verif/known-findings.txt', 'a').write("known: property=%s %s\n" % (r["property"], json.dumps(e, ensure_ascii=False)))
print("added", r["property"], e["id"], e["sig"])
