#!/bin/bash
# tools/private_check.sh <patch.diff|-> <property>...
# Runs the quick checks against a PRIVATE copy of the repository with the patch applied, so that /repo itself is never
# touched (other runs may be building from it):  /tmp/campaign/repo = worktree of /repo HEAD, /tmp/campaign/verif = copy
# of /verif whose harness depends on that worktree. "-" = no patch (sanity run). Prints one line per property.
PATCH=$1; shift
set -u
mkdir -p /tmp/campaign
if [ ! -d /tmp/campaign/repo/.git ] && [ ! -f /tmp/campaign/repo/.git ]; then
  git -C /repo worktree prune
  git -C /repo worktree add -q --detach /tmp/campaign/repo HEAD || exit 2
fi
git -C /tmp/campaign/repo checkout -q --detach "$(git -C /repo rev-parse HEAD)" && git -C /tmp/campaign/repo reset -q --hard
rsync -a --delete --exclude target --exclude replays --exclude .git --exclude corpus-work /verif/ /tmp/campaign/verif/
sed -i 's#path = "/repo"#path = "/tmp/campaign/repo"#' /tmp/campaign/verif/harness/Cargo.toml
if [ "$PATCH" != "-" ]; then
  git -C /tmp/campaign/repo apply "$PATCH" || { echo "patch does not apply"; exit 2; }
fi
for p in "$@"; do
  out=$(cd /tmp/campaign/verif && ./check $p 2>&1); rc=$?
  echo "$(basename $(dirname $PATCH) 2>/dev/null) $p exit=$rc $(echo "$out" | grep -o 'check: C[0-9]*|[^:]*' | head -3 | tr '\n' ' ')"
done
git -C /tmp/campaign/repo reset -q --hard
