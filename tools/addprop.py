#!/usr/bin/env python3
import sys
p='/verif/harness/src/props/mod.rs'; s=open(p).read()
for P in sys.argv[1:]:
    m=P.lower()
    if 'pub mod %s;'%m in s: continue
    s=s.replace('pub mod c01;\n','pub mod c01;\npub mod %s;\n'%m)
    s=s.replace('        "C01" => c01::run(ctx, rep),\n','        "C01" => c01::run(ctx, rep),\n        "%s" => %s::run(ctx, rep),\n'%(P,m))
    s=s.replace('        "C01" => c01::replay(ctx, engine, case),\n','        "C01" => c01::replay(ctx, engine, case),\n        "%s" => %s::replay(ctx, engine, case),\n'%(P,m))
open(p,'w').write(s)
