#!/usr/bin/env python3
"""Sensitivity: re-introduce each repaired defect (reverse-apply its fix commit to /repo's working tree),
run the quick check of the property it was logged under, expect exit 1, restore the tree.
Writes /verif/seeded/revert-fix-results.json. Never commits anything in /repo."""
import json, re, subprocess, sys, os
ROOT='/verif'
rows=[]
for line in open(os.path.join(ROOT,'known-findings.txt')):
    m=re.match(r'fixed: property=(C\d+) ([0-9a-f]{7}) (.*)', line.strip())
    if m: rows.append(m.groups())
only=set(sys.argv[1:])
results=[]
def sh(cmd, **kw):
    return subprocess.run(cmd, shell=True, stdout=subprocess.PIPE, stderr=subprocess.STDOUT, text=True, **kw)
assert sh('git -C /repo status --porcelain').stdout.strip()=='' , 'repo not clean'
for prop, commit, what in rows:
    if only and commit not in only and prop not in only: continue
    diff=sh('git -C /repo show %s -- src'%commit).stdout
    open('/tmp/revert.diff','w').write(diff)
    r=sh('git -C /repo apply -R /tmp/revert.diff')
    if r.returncode!=0:
        r=sh('git -C /repo apply -R --3way /tmp/revert.diff')
    if r.returncode!=0:
        sh('git -C /repo checkout -- . && git -C /repo reset -q')
        results.append({"property":prop,"commit":commit,"what":what[:100],"outcome":"cannot-revert-cleanly (later fixes touch the same lines)"})
        print(prop, commit, 'cannot revert cleanly'); continue
    c=sh('cd %s && ./check %s'%(ROOT,prop))
    viol=[l for l in c.stdout.split('\n') if l.startswith('VIOLATION') or ('check: C' in l and '|' in l)]
    sig=''
    for l in c.stdout.split('\n'):
        mm=re.match(r'check: (C\d+\|[^:]*):', l)
        if mm: sig=mm.group(1); break
    results.append({"property":prop,"commit":commit,"what":what[:100],"exit":c.returncode,"signature":sig})
    print(prop, commit, 'exit', c.returncode, sig, flush=True)
    sh('git -C /repo checkout -- . && git -C /repo reset -q')
    if c.returncode==2:
        print(c.stdout[-1500:])
os.makedirs(os.path.join(ROOT,'seeded'),exist_ok=True)
json.dump(results,open(os.path.join(ROOT,'seeded','revert-fix-results.json'),'w'),indent=1)
assert sh('git -C /repo status --porcelain').stdout.strip()=='' , 'repo not restored!'
