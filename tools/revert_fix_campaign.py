#!/usr/bin/env python3
"""Sensitivity: re-introduce each repaired defect (reverse-apply its fix commit), run the quick check of
the property it was logged under, expect exit 1.

The campaign works on private copies so that it never disturbs /repo or /verif:
  /tmp/campaign/repo  = git worktree of /repo HEAD
  /tmp/campaign/verif = copy of /verif whose harness depends on that worktree
Results are merged into /verif/seeded/revert-fix-results.json.
usage: revert_fix_campaign.py [commit-or-property ...]   (default: all `fixed:` lines)"""
import json, os, re, subprocess, sys

SRC = '/verif'
ROOT = '/tmp/campaign/verif'
REPO = '/tmp/campaign/repo'


def sh(cmd, **kw):
    return subprocess.run(cmd, shell=True, stdout=subprocess.PIPE, stderr=subprocess.STDOUT, text=True, **kw)


def prep():
    sh('git -C /repo worktree remove --force %s' % REPO)
    sh('rm -rf %s' % REPO)
    r = sh('mkdir -p /tmp/campaign && git -C /repo worktree add -q %s HEAD' % REPO)
    assert r.returncode == 0, r.stdout
    r = sh('mkdir -p %s && rsync -a --delete --exclude target --exclude replays --exclude .git %s/ %s/' % (ROOT, SRC, ROOT))
    assert r.returncode == 0, r.stdout
    f = os.path.join(ROOT, 'harness/Cargo.toml')
    t = open(f).read().replace('path = "/repo"', 'path = "%s"' % REPO)
    open(f, 'w').write(t)


def main():
    prep()
    rows = []
    for line in open(os.path.join(SRC, 'known-findings.txt')):
        m = re.match(r'fixed: property=(C\d+) ([0-9a-f]{7}) (.*)', line.strip())
        if m:
            rows.append(m.groups())
    only = set(sys.argv[1:])
    results = []
    for prop, commit, what in rows:
        if only and commit not in only and prop not in only:
            continue
        diff = sh('git -C /repo show %s -- src' % commit).stdout
        open('/tmp/campaign/revert.diff', 'w').write(diff)
        r = sh('git -C %s apply -R /tmp/campaign/revert.diff' % REPO)
        if r.returncode != 0:
            sh('git -C %s reset -q --hard HEAD' % REPO)
            results.append({"property": prop, "commit": commit, "what": what[:120], "outcome": "cannot be reverted mechanically (later fixes touch the same lines)"})
            print(prop, commit, 'cannot revert cleanly', flush=True)
            continue
        c = sh('cd %s && ./check %s' % (ROOT, prop))
        sig = ''
        for l in c.stdout.split('\n'):
            mm = re.match(r'check: (C\d+\|[^:]*):', l)
            if mm:
                sig = mm.group(1)
                break
        results.append({"property": prop, "commit": commit, "what": what[:120], "exit": c.returncode, "signature": sig})
        print(prop, commit, 'exit', c.returncode, sig, flush=True)
        if c.returncode == 2:
            print(c.stdout[-1500:], flush=True)
        sh('git -C %s reset -q --hard HEAD' % REPO)
    out = os.path.join(SRC, 'seeded', 'revert-fix-results.json')
    os.makedirs(os.path.dirname(out), exist_ok=True)
    old = json.load(open(out)) if os.path.exists(out) else []
    keep = [o for o in old if not any(o['commit'] == r['commit'] and o['property'] == r['property'] for r in results)]
    json.dump(keep + results, open(out, 'w'), indent=1)


if __name__ == '__main__':
    main()
