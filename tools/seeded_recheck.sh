#!/bin/bash
# tools/seeded_recheck.sh <seed-id> <property>...   applies /verif/seeded/<id>/patch.diff to /repo, runs the quick checks, restores /repo
ID=$1; shift
[ -z "$(git -C /repo status --porcelain)" ] || { echo "/repo not clean"; exit 2; }
git -C /repo apply /verif/seeded/$ID/patch.diff || { echo "patch does not apply"; exit 2; }
for p in "$@"; do
  out=$(cd /verif && ./check $p 2>&1); rc=$?
  echo "$ID $p exit=$rc $(echo "$out" | grep -o 'check: C[0-9]*|[^:]*' | head -3 | tr '\n' ' ')"
done
git -C /repo checkout -- .
