#!/bin/bash
# tools/seeded_recheck.sh <seed-id> <property>...   runs the quick checks against a private copy of the repository with
# /verif/seeded/<id>/patch.diff applied (tools/private_check.sh); /repo itself is not touched
ID=$1; shift
exec /verif/tools/private_check.sh /verif/seeded/$ID/patch.diff "$@"
