#!/bin/bash
# tools/seeded_eval.sh <seed-id> <worktree> <property> [more properties to run...]
# 1. saves the change of an independent sub-agent (patch + demonstration + its notes) under /verif/seeded/<seed-id>/
# 2. confirms in the scratch worktree: builds; the existing lib tests that pass at HEAD still pass; the demonstration
#    fails with the change and passes without it
# 3. applies the patch to a private copy of the repository (tools/private_check.sh) and runs the quick checks of the given properties there
# prints a JSON summary (also written to /verif/seeded/<seed-id>/meta.json)
set -u
ID=$1; WT=$2; shift 2; PROPS="$@"
OUT=/verif/seeded/$ID
mkdir -p $OUT
cd $WT || exit 2
git diff -- src > $OUT/patch.diff
DEMO=$(ls tests/seeded_*.rs 2>/dev/null | head -1)
[ -n "$DEMO" ] && cp $DEMO $OUT/
[ -f SEEDED.md ] && cp SEEDED.md $OUT/agent-notes.md
DEMONAME=$(basename "${DEMO:-none}" .rs)
export CARGO_NET_OFFLINE=true
# --- with the change
cargo build --offline > /tmp/seval-build.log 2>&1; BUILD=$?
cargo test --offline --lib -- --test-threads 4 > /tmp/seval-lib-with.log 2>&1
grep -E "^test .* (ok|FAILED)$" /tmp/seval-lib-with.log | sort > /tmp/seval-with.txt
if [ -n "$DEMO" ]; then cargo test --offline --test $DEMONAME -- --test-threads 1 > /tmp/seval-demo-with.log 2>&1; DEMO_WITH=$?; else DEMO_WITH=-1; fi
# --- without
git stash -q -- src
cargo test --offline --lib -- --test-threads 4 > /tmp/seval-lib-without.log 2>&1
grep -E "^test .* (ok|FAILED)$" /tmp/seval-lib-without.log | sort > /tmp/seval-without.txt
if [ -n "$DEMO" ]; then cargo test --offline --test $DEMONAME -- --test-threads 1 > /tmp/seval-demo-without.log 2>&1; DEMO_WITHOUT=$?; else DEMO_WITHOUT=-1; fi
git stash pop -q
# tests that pass without the change and fail with it (restricted to the stable baseline list)
python3 - "$ID" "$BUILD" "$DEMO_WITH" "$DEMO_WITHOUT" "$PROPS" <<'PY'
import json, sys, re, subprocess, os
sid, build, dw, dwo, props = sys.argv[1], int(sys.argv[2]), int(sys.argv[3]), int(sys.argv[4]), sys.argv[5].split()
stable = set(n.replace('nun-db::','') for n in json.load(open('/root/.vp/BASELINE.json'))['stable_pass'])
def load(f):
    d={}
    for l in open(f):
        m=re.match(r'test (\S+) \.\.\. (ok|FAILED)', l)
        if m: d[m.group(1)]=m.group(2)
    return d
w, wo = load('/tmp/seval-with.txt'), load('/tmp/seval-without.txt')
broken = sorted(t for t in wo if wo[t]=='ok' and w.get(t)!='ok' and t in stable)
# load-sensitive tests (timing assertions, shared op-log file): re-run each suspect alone, twice, with the change applied
confirmed = []
for t in broken:
    fails = 0
    for _ in range(2):
        r = subprocess.run('cargo test --offline --lib %s -- --exact --test-threads 1' % t, shell=True, stdout=subprocess.PIPE, stderr=subprocess.STDOUT, text=True)
        if r.returncode != 0: fails += 1
    if fails == 2: confirmed.append(t)
broken = confirmed
res = {"id": sid, "builds": build==0, "stable_tests_broken_by_change": broken, "demo_fails_with_change": dw!=0, "demo_passes_without_change": dwo==0, "checks": {}}
ok_seed = res["builds"] and not broken and res["demo_fails_with_change"] and res["demo_passes_without_change"]
res["accepted_as_seed"] = ok_seed
# --- run my checks against it
if ok_seed:
    # on a PRIVATE copy of the repository (tools/private_check.sh): /repo itself is never touched
    c = subprocess.run('/verif/tools/private_check.sh /verif/seeded/%s/patch.diff %s' % (sid, ' '.join(props)), shell=True, stdout=subprocess.PIPE, stderr=subprocess.STDOUT, text=True)
    for line in c.stdout.split('\n'):
        m = re.match(r'\S* ?(C\d+) exit=(\d+) ?(.*)', line.strip())
        if m:
            res["checks"][m.group(1)] = {"exit": int(m.group(2)), "signatures": [s.replace('check: ', '') for s in re.findall(r'check: C\d+\|[^ ]*', m.group(3))][:4]}
    if not res["checks"]:
        res["checks"] = {"error": c.stdout[-400:]}
json.dump(res, open('/verif/seeded/%s/result.json' % sid, 'w'), indent=1)
print(json.dumps(res, indent=1))
PY
