#![no_main]
//! Coverage-guided variant of the C12 check: bytes -> op-log records written with the real writer ->
//! catch-up query vs linear scan for every interesting `since`.
use libfuzzer_sys::fuzz_target;

fuzz_target!(|data: &[u8]| {
    nv::fuzzglue::c12(data);
});
