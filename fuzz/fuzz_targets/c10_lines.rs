#![no_main]
//! Coverage-guided variant of the C10 check: bytes -> (credential state, 1-4 command lines) ->
//! fresh node -> the C10 oracle (no panic, service loops alive, no poisoned lock, second client served).
use libfuzzer_sys::fuzz_target;

fuzz_target!(|data: &[u8]| {
    nv::fuzzglue::c10(data);
});
